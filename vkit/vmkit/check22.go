package vmkit

import (
	"fmt"
	"strings"

	"diagonal.works/b6"
	"diagonal.works/b6/api"
)

// ---- static binding analysis on stamped trees ----

type scopeEntry struct {
	name   string
	lambda int // stamp of the binding lambda
}

// binders maps the stamp of every symbol occurrence in VALUE position (not the
// function symbol of a call, which R3 resolves among the globals only) to the
// stamp of the lambda binding it (0 = not bound by a lambda).
func binders(e b6.Expression, scope []scopeEntry, out map[int]int, names map[int]string) {
	switch x := e.AnyExpression.(type) {
	case b6.SymbolExpression:
		b := 0
		for i := len(scope) - 1; i >= 0; i-- {
			if scope[i].name == string(x) {
				b = scope[i].lambda
				break
			}
		}
		out[e.Begin] = b
		names[e.Begin] = string(x)
	case b6.LambdaExpression:
		inner := append([]scopeEntry{}, scope...)
		// within one lambda the VM resolves duplicates to the first parameter; names are distinct here
		for i := len(x.Args) - 1; i >= 0; i-- {
			inner = append(inner, scopeEntry{x.Args[i], e.Begin})
		}
		binders(x.Expression, inner, out, names)
	case b6.CallExpression:
		if _, ok := x.Function.AnyExpression.(b6.SymbolExpression); !ok {
			binders(x.Function, scope, out, names)
		}
		for _, a := range x.Args {
			binders(a, scope, out, names)
		}
	}
}

// StaticBindingCheck reports how api.Simplify changed symbol bindings:
// "" when every value-position symbol of the simplified tree s is bound by
// the same lambda as in the original p (or is a global in both).
func (l *Lib) StaticBindingCheck(p, s b6.Expression) (class string, detail string) {
	bp, np := map[int]int{}, map[int]string{}
	bs, ns := map[int]int{}, map[int]string{}
	binders(p, nil, bp, np)
	binders(s, nil, bs, ns)
	// deterministic order: by stamp
	max := 0
	for k := range bs {
		if k > max {
			max = k
		}
	}
	for st := 1; st <= max; st++ {
		b, ok := bs[st]
		if !ok {
			continue
		}
		orig, known := bp[st] // unknown: was the function symbol of a call in p => a global
		if known && np[st] != ns[st] {
			return "harness:stamp-mismatch", fmt.Sprintf("stamp %d is %q in the original and %q after Simplify", st, np[st], ns[st])
		}
		switch {
		case orig == b:
			if b == 0 {
				if _, isGlobal := l.Global(ns[st]); !isGlobal {
					return "free-symbol-not-global", fmt.Sprintf("symbol %q is free in the simplified tree and not a global", ns[st])
				}
			}
		case orig != 0 && b == 0:
			if _, isGlobal := l.Global(ns[st]); isGlobal {
				return "parameter-rebound-to-global", fmt.Sprintf("parameter %q now denotes the global of that name", ns[st])
			}
			return "lambda-parameter-left-unbound", fmt.Sprintf("parameter %q is no longer bound by any lambda", ns[st])
		case orig != 0 && b != 0:
			return "captures-different-binding", fmt.Sprintf("parameter %q was bound by lambda #%d and is now bound by lambda #%d", ns[st], orig, b)
		default:
			return "global-captured-by-parameter", fmt.Sprintf("global %q is now bound by lambda #%d", ns[st], b)
		}
	}
	return "", ""
}

// ---- classification of what Simplify did (the failing input class) ----

func lambdaStamps(e b6.Expression, out map[int]b6.Expression) {
	switch x := e.AnyExpression.(type) {
	case b6.LambdaExpression:
		out[e.Begin] = e
		lambdaStamps(x.Expression, out)
	case b6.CallExpression:
		lambdaStamps(x.Function, out)
		for _, a := range x.Args {
			lambdaStamps(a, out)
		}
	}
}

func mentions(e b6.Expression, names map[string]bool) bool {
	switch x := e.AnyExpression.(type) {
	case b6.SymbolExpression:
		return names[string(x)]
	case b6.LambdaExpression:
		inner := map[string]bool{}
		for k, v := range names {
			inner[k] = v
		}
		for _, a := range x.Args {
			delete(inner, a)
		}
		return mentions(x.Expression, inner)
	case b6.CallExpression:
		if mentions(x.Function, names) {
			return true
		}
		for _, a := range x.Args {
			if mentions(a, names) {
				return true
			}
		}
	}
	return false
}

func containsCall(e b6.Expression) bool {
	switch x := e.AnyExpression.(type) {
	case b6.CallExpression:
		return true
	case b6.LambdaExpression:
		_ = x
		return false // a lambda is a value; its body is not evaluated
	}
	return false
}

func queryLiterals(e b6.Expression, out *[]string) {
	switch x := e.AnyExpression.(type) {
	case b6.QueryExpression:
		*out = append(*out, rawQuery(x.Query))
	case b6.LambdaExpression:
		queryLiterals(x.Expression, out)
	case b6.CallExpression:
		queryLiterals(x.Function, out)
		for _, a := range x.Args {
			queryLiterals(a, out)
		}
	}
}

// ClassifyChange names the rewrite Simplify applied, judged on the first
// (preorder) lambda of p that no longer exists in s.
func (l *Lib) ClassifyChange(p, s b6.Expression) string {
	lp, ls := map[int]b6.Expression{}, map[int]b6.Expression{}
	lambdaStamps(p, lp)
	lambdaStamps(s, ls)
	first := 0
	for st := range lp {
		if _, ok := ls[st]; !ok && (first == 0 || st < first) {
			first = st
		}
	}
	if first == 0 {
		var qp, qs []string
		queryLiterals(p, &qp)
		queryLiterals(s, &qs)
		if len(qp) != len(qs) {
			return "query-building-call"
		}
		if strings.Join(qp, " ") != strings.Join(qs, " ") {
			return "query-literal-flattened"
		}
		return "zero-argument-call"
	}
	lam := lp[first].AnyExpression.(b6.LambdaExpression)
	if len(lam.Args) == 0 {
		return "zero-parameter-lambda-inlined"
	}
	call, ok := lam.Expression.AnyExpression.(b6.CallExpression)
	if !ok {
		return "eta:body-became-a-call"
	}
	i := 0
	for i < len(lam.Args) && i < len(call.Args) {
		if sym, ok := call.Args[i].AnyExpression.(b6.SymbolExpression); !ok || string(sym) != lam.Args[i] {
			break
		}
		i++
	}
	params := map[string]bool{}
	for _, a := range lam.Args {
		params[a] = true
	}
	if i < len(lam.Args) {
		return "eta:parameters-not-all-consumed"
	}
	rest := false
	for _, a := range call.Args[i:] {
		if mentions(a, params) {
			rest = true
		}
	}
	if rest || mentions(call.Function, params) {
		return "eta:parameter-used-again-after-the-prefix"
	}
	if containsCall(call.Function) {
		return "eta:function-expression-evaluated-early"
	}
	for _, a := range call.Args[i:] {
		if containsCall(a) {
			return "eta:remaining-arguments-evaluated-early"
		}
	}
	if i == len(call.Args) {
		if sym, ok := call.Function.AnyExpression.(b6.SymbolExpression); ok {
			if g, ok := l.Global(string(sym)); ok && g.Arity() != len(lam.Args) {
				return "eta:arity-of-function-differs"
			}
		}
		if fl, ok := call.Function.AnyExpression.(b6.LambdaExpression); ok && len(fl.Args) != len(lam.Args) {
			return "eta:arity-of-function-differs"
		}
		return "eta:full"
	}
	return "eta:prefix-with-remaining-arguments"
}

// Simplified runs api.Simplify on a fresh tree with panic capture.
func (l *Lib) Simplified(in b6.Expression) (s b6.Expression, panicClass string, panicMsg string) {
	site, first, panicked := fastCatch(func() { s = api.Simplify(in, l.Symbols()) })
	if panicked {
		return b6.Expression{}, "Simplify-panics@" + site, first
	}
	return s, "", ""
}

// judge22 compares original and simplified outcomes (reference and VM).
func judge22(t *Tally, what, pTxt, sTxt, reason string, refP, refS Outcome, evP, evS Events, vmP, vmS Outcome) {
	semantic := !Agree(refP, refS)
	if semantic {
		t.Outcome(what + "CHANGED-MEANING:" + reason)
		t.Violate("simplify-changes-meaning:"+reason,
			"Simplify changes the result under the reference semantics\n original:   %s\n simplified: %s\n reference(original)=%s reference(simplified)=%s\n vm(original)=%s vm(simplified)=%s",
			pTxt, sTxt, refP, refS, vmP, vmS)
	}
	if vmS.Panic != "" && vmP.Panic == "" {
		t.Outcome(what + "simplified-panics")
		t.Violate("simplified-tree-panics:"+vmS.Panic,
			"the VM panics on the simplified tree but not on the original\n original:   %s => %s\n simplified: %s => %s", pTxt, vmP, sTxt, vmS)
		return
	}
	if vmP.Panic != "" {
		// C21's findings; the comparison with the original is undefined.
		t.Outcome(what + "original-panics-in-vm(C21)")
		return
	}
	if Agree(vmP, vmS) {
		if !semantic {
			k := vmP.Kind()
			t.Outcome(what + "same:" + k + ":" + reason)
		}
		return
	}
	if semantic {
		return // already reported once, with the reference-level class
	}
	if evP.Escaped || evS.Escaped || evP.VariadicPartial || evS.VariadicPartial {
		t.Outcome(what + "unsettled(U1/U2):vm-differs:" + reason)
		t.R.Count("unsettled-disagreements", 1)
		return
	}
	cls := "vm-result-differs-after-simplify:" + vmP.Kind() + "->" + vmS.Kind() + ":" + reason
	t.Outcome(what + "VM-DIFFERS:" + reason)
	t.Violate(cls, "the VM evaluates the simplified tree differently (the reference interpreter gives the same result for both)\n original:   %s => %s\n simplified: %s => %s\n reference: %s",
		pTxt, vmP, sTxt, vmS, refP)
}

// Check22 runs the C22 oracle on one program (builder of fresh stamped trees).
// It returns the number of VM evaluations and whether Simplify changed the tree.
func (l *Lib) Check22(t *Tally, build func() b6.Expression) (evals int64, changed bool) {
	p := build()
	pTxt := Print(p)
	s, pc, pm := l.Simplified(build())
	if pc != "" {
		t.Outcome("simplify-panics")
		t.Violate(pc, "api.Simplify panicked on %s: %s", pTxt, pm)
		return 0, true
	}
	sTxt := Print(s)
	if sTxt == pTxt {
		t.Outcome("unchanged")
		return 0, false
	}
	reason := l.ClassifyChange(p, s)
	if cls, detail := l.StaticBindingCheck(p, s); cls != "" {
		t.Outcome("STATIC:" + cls + ":" + reason)
		t.Violate("static:"+cls+":"+reason, "%s\n original:   %s\n simplified: %s", detail, pTxt, sTxt)
	}
	refP, evP := l.RunRef(p)
	if refP.ErrCat == "fuel" {
		t.Outcome("skipped:reference-budget-exhausted")
		return 0, true
	}
	refS, evS := l.RunRef(DeepCopy(s))
	vmP := l.RunVM(build())
	vmS := l.RunVM(DeepCopy(s))
	evals += 2
	judge22(t, "", pTxt, sTxt, reason, refP, refS, evP, evS, vmP, vmS)

	// behaviour of function results: Simplify(call p 5 6 7) vs call p 5 6 7
	cur := build
	r := refP
	for depth := 0; depth < 2 && r.IsFn && r.Arity >= 0 && r.Arity <= 3 && len(l.Probes) > 0; depth++ {
		k := r.Arity
		var next func() b6.Expression
		for set := range l.Probes {
			set := set
			inner := cur
			mk := func() b6.Expression { return l.Probe(inner(), k, set) }
			pp := mk()
			ps, pc, pm := l.Simplified(mk())
			if pc != "" {
				t.Violate(pc, "api.Simplify panicked on %s: %s", Print(pp), pm)
				continue
			}
			prefP, pevP := l.RunRef(pp)
			if prefP.ErrCat == "fuel" {
				continue
			}
			prefS, pevS := l.RunRef(DeepCopy(ps))
			pvmP := l.RunVM(mk())
			pvmS := l.RunVM(DeepCopy(ps))
			evals += 2
			judge22(t, "probe:", Print(pp), Print(ps), reason, prefP, prefS, pevP, pevS, pvmP, pvmS)
			if set == 0 {
				r = prefP
				next = mk
			}
		}
		if next == nil {
			break
		}
		cur = next
	}
	return evals, true
}
