package vmkit

import (
	"fmt"
	"strings"

	"diagonal.works/b6"
	"diagonal.works/b6/api"
)

// ---- static binding analysis on stamped trees ----

type scopeEntry struct {
	name   string
	lambda int // stamp of the binding lambda
}

// binders maps the stamp of every symbol occurrence to the stamp of the lambda
// binding it (0 = not bound by a lambda). The function symbol of a call is
// resolved among the globals only (R3, and what api.compileCall does), so it is
// never bound by a lambda; such occurrences are also recorded in callPos.
func binders(e b6.Expression, scope []scopeEntry, out map[int]int, names map[int]string, callPos map[int]bool) {
	switch x := e.AnyExpression.(type) {
	case b6.SymbolExpression:
		b := 0
		for i := len(scope) - 1; i >= 0; i-- {
			if scope[i].name == string(x) {
				b = scope[i].lambda
				break
			}
		}
		out[e.Begin] = b
		names[e.Begin] = string(x)
	case b6.LambdaExpression:
		inner := append([]scopeEntry{}, scope...)
		// within one lambda the VM resolves duplicates to the first parameter; names are distinct here
		for i := len(x.Args) - 1; i >= 0; i-- {
			inner = append(inner, scopeEntry{x.Args[i], e.Begin})
		}
		binders(x.Expression, inner, out, names, callPos)
	case b6.CallExpression:
		if sym, ok := x.Function.AnyExpression.(b6.SymbolExpression); ok {
			out[x.Function.Begin] = 0
			names[x.Function.Begin] = string(sym)
			callPos[x.Function.Begin] = true
		} else {
			binders(x.Function, scope, out, names, callPos)
		}
		for _, a := range x.Args {
			binders(a, scope, out, names, callPos)
		}
	}
}

// StaticBindingCheck reports how api.Simplify changed symbol bindings:
// "" when every symbol of the simplified tree s is bound by the same lambda as
// in the original p (or is a global in both).
func (l *Lib) StaticBindingCheck(p, s b6.Expression) (class string, detail string) {
	bp, np, cp := map[int]int{}, map[int]string{}, map[int]bool{}
	bs, ns, cs := map[int]int{}, map[int]string{}, map[int]bool{}
	binders(p, nil, bp, np, cp)
	binders(s, nil, bs, ns, cs)
	// deterministic order: by stamp
	max := 0
	for k := range bs {
		if k > max {
			max = k
		}
	}
	for st := 1; st <= max; st++ {
		b, ok := bs[st]
		if !ok {
			continue
		}
		orig, known := bp[st] // unknown: a node Simplify created; treated as a global
		if known && np[st] != ns[st] {
			return "harness:stamp-mismatch", fmt.Sprintf("stamp %d is %q in the original and %q after Simplify", st, np[st], ns[st])
		}
		switch {
		case orig == b:
			if b == 0 {
				if _, isGlobal := l.Global(ns[st]); !isGlobal {
					return "free-symbol-not-global", fmt.Sprintf("symbol %q is free in the simplified tree and not a global", ns[st])
				}
			}
		case orig != 0 && b == 0 && cs[st]:
			return "parameter-moved-into-call-position", fmt.Sprintf("parameter %q became the function symbol of a call, where only globals are looked up", ns[st])
		case orig != 0 && b == 0:
			if _, isGlobal := l.Global(ns[st]); isGlobal {
				return "parameter-rebound-to-global", fmt.Sprintf("parameter %q now denotes the global of that name", ns[st])
			}
			return "lambda-parameter-left-unbound", fmt.Sprintf("parameter %q is no longer bound by any lambda", ns[st])
		case orig != 0 && b != 0:
			return "captures-different-binding", fmt.Sprintf("parameter %q was bound by lambda #%d and is now bound by lambda #%d", ns[st], orig, b)
		default:
			return "global-captured-by-parameter", fmt.Sprintf("global %q is now bound by lambda #%d", ns[st], b)
		}
	}
	return "", ""
}

// ---- classification of what Simplify did (the failing input class) ----

func lambdaStamps(e b6.Expression, out map[int]b6.Expression) {
	switch x := e.AnyExpression.(type) {
	case b6.LambdaExpression:
		out[e.Begin] = e
		lambdaStamps(x.Expression, out)
	case b6.CallExpression:
		lambdaStamps(x.Function, out)
		for _, a := range x.Args {
			lambdaStamps(a, out)
		}
	}
}

func mentions(e b6.Expression, names map[string]bool) bool {
	switch x := e.AnyExpression.(type) {
	case b6.SymbolExpression:
		return names[string(x)]
	case b6.LambdaExpression:
		inner := map[string]bool{}
		for k, v := range names {
			inner[k] = v
		}
		for _, a := range x.Args {
			delete(inner, a)
		}
		return mentions(x.Expression, inner)
	case b6.CallExpression:
		if mentions(x.Function, names) {
			return true
		}
		for _, a := range x.Args {
			if mentions(a, names) {
				return true
			}
		}
	}
	return false
}

// valueLike reports whether evaluating e has no effect under the reference
// semantics: symbols, literals, lambdas, and the zero-argument call of a
// non-variadic global of arity > 0 (a partial application binding nothing).
func (l *Lib) valueLike(e b6.Expression) bool {
	c, ok := e.AnyExpression.(b6.CallExpression)
	if !ok {
		return true
	}
	if len(c.Args) != 0 {
		return false
	}
	if sym, ok := c.Function.AnyExpression.(b6.SymbolExpression); ok {
		if g, ok := l.Global(string(sym)); ok && !g.Variadic && g.Arity() > 0 {
			return true
		}
	}
	return false
}

// headArity returns the arity of a call's function expression when it is
// statically known.
func (l *Lib) headArity(h b6.Expression) (arity int, variadic bool, known bool) {
	switch x := h.AnyExpression.(type) {
	case b6.SymbolExpression:
		if g, ok := l.Global(string(x)); ok {
			return g.Arity(), g.Variadic, true
		}
	case b6.LambdaExpression:
		return len(x.Args), false, true
	case b6.CallExpression:
		if len(x.Args) == 0 {
			if sym, ok := x.Function.AnyExpression.(b6.SymbolExpression); ok {
				if g, ok := l.Global(string(sym)); ok && g.Arity() > 0 {
					return g.Arity(), g.Variadic, true
				}
			}
		}
	}
	return 0, false, false
}

// hasLiteralHead reports whether e contains a call whose function is a literal.
func hasLiteralHead(e b6.Expression) bool {
	switch x := e.AnyExpression.(type) {
	case b6.LambdaExpression:
		return hasLiteralHead(x.Expression)
	case b6.CallExpression:
		if _, ok := x.Function.AnyExpression.(b6.AnyLiteral); ok {
			return true
		}
		if hasLiteralHead(x.Function) {
			return true
		}
		for _, a := range x.Args {
			if hasLiteralHead(a) {
				return true
			}
		}
	}
	return false
}

func queryLiterals(e b6.Expression, out *[]string) {
	switch x := e.AnyExpression.(type) {
	case b6.QueryExpression:
		*out = append(*out, rawQuery(x.Query))
	case b6.LambdaExpression:
		queryLiterals(x.Expression, out)
	case b6.CallExpression:
		queryLiterals(x.Function, out)
		for _, a := range x.Args {
			queryLiterals(a, out)
		}
	}
}

// changeClasses, most culpable first: the class reported for a program is the
// best-ranked class among the lambdas of p that no longer exist in s (ties:
// first in preorder).
var changeRank = map[string]int{
	"eta:parameters-not-all-consumed":           0,
	"eta:parameter-used-again-after-the-prefix": 0,
	"eta:variadic-function-becomes-a-full-call": 1,
	"eta:function-arity-smaller-than-the-call":  1,
	"eta:function-expression-evaluated-early":   2,
	"eta:remaining-arguments-evaluated-early":   2,
	"eta:arity-of-function-differs":             3,
	"eta:function-of-unknown-arity":             4,
	"eta:after-inner-rewrite":                   5,
	"eta:full":                                  6,
	"eta:prefix-with-remaining-arguments":       6,
	"zero-parameter-lambda-inlined":             6,
}

// residual is the harness's own model of the lambda / zero-argument-call
// rewrites of api.Simplify; it is used ONLY to name the rewrite that was
// applied to a lambda whose body was itself rewritten first (the verdict never
// depends on it).
func (l *Lib) residual(e b6.Expression) b6.Expression {
	switch x := e.AnyExpression.(type) {
	case b6.LambdaExpression:
		body := l.residual(x.Expression)
		if call, ok := body.AnyExpression.(b6.CallExpression); ok && len(x.Args) > 0 {
			i := 0
			for i < len(x.Args) && i < len(call.Args) {
				if sym, ok := call.Args[i].AnyExpression.(b6.SymbolExpression); !ok || string(sym) != x.Args[i] {
					break
				}
				i++
			}
			if i > 0 {
				if i == len(call.Args) {
					return call.Function
				}
				e.AnyExpression = b6.CallExpression{Function: call.Function, Args: call.Args[i:]}
				return e
			}
		}
		e.AnyExpression = b6.LambdaExpression{Args: x.Args, Expression: body}
		return e
	case b6.CallExpression:
		f := l.residual(x.Function)
		args := make([]b6.Expression, len(x.Args))
		for i, a := range x.Args {
			args[i] = l.residual(a)
		}
		if len(args) == 0 {
			if sym, ok := f.AnyExpression.(b6.SymbolExpression); ok {
				if g, ok := l.Global(string(sym)); ok && g.Arity() > 0 && !g.Variadic {
					return f
				}
			} else if lam, ok := f.AnyExpression.(b6.LambdaExpression); ok && len(lam.Args) == 0 {
				return lam.Expression
			}
		}
		e.AnyExpression = b6.CallExpression{Function: f, Args: args, Pipelined: x.Pipelined}
		return e
	}
	return e
}

func (l *Lib) classifyLambda(lam b6.LambdaExpression) string {
	if len(lam.Args) == 0 {
		return "zero-parameter-lambda-inlined"
	}
	call, ok := l.residual(lam.Expression).AnyExpression.(b6.CallExpression)
	if !ok {
		return "eta:after-inner-rewrite"
	}
	i := 0
	for i < len(lam.Args) && i < len(call.Args) {
		if sym, ok := call.Args[i].AnyExpression.(b6.SymbolExpression); !ok || string(sym) != lam.Args[i] {
			break
		}
		i++
	}
	if i == 0 {
		return "eta:after-inner-rewrite"
	}
	params := map[string]bool{}
	for _, a := range lam.Args {
		params[a] = true
	}
	if i < len(lam.Args) {
		return "eta:parameters-not-all-consumed"
	}
	if mentions(call.Function, params) {
		return "eta:parameter-used-again-after-the-prefix"
	}
	for _, a := range call.Args[i:] {
		if mentions(a, params) {
			return "eta:parameter-used-again-after-the-prefix"
		}
	}
	arity, variadic, known := l.headArity(call.Function)
	if known && variadic {
		// `f rest..` (or a later partial application of f itself) is a complete call of a variadic function
		return "eta:variadic-function-becomes-a-full-call"
	}
	if known && !variadic && arity < len(call.Args) {
		return "eta:function-arity-smaller-than-the-call"
	}
	if !l.valueLike(call.Function) {
		return "eta:function-expression-evaluated-early"
	}
	for _, a := range call.Args[i:] {
		if !l.valueLike(a) {
			return "eta:remaining-arguments-evaluated-early"
		}
	}
	if !known {
		return "eta:function-of-unknown-arity"
	}
	if arity != len(call.Args) {
		return "eta:arity-of-function-differs"
	}
	if i == len(call.Args) {
		return "eta:full"
	}
	return "eta:prefix-with-remaining-arguments"
}

// ClassifyChange names the rewrite Simplify applied (the failing input class).
func (l *Lib) ClassifyChange(p, s b6.Expression) string {
	lp, ls := map[int]b6.Expression{}, map[int]b6.Expression{}
	lambdaStamps(p, lp)
	lambdaStamps(s, ls)
	best, bestRank, bestStamp := "", 99, 0
	for st, le := range lp {
		if _, ok := ls[st]; ok {
			continue
		}
		c := l.classifyLambda(le.AnyExpression.(b6.LambdaExpression))
		r := changeRank[c]
		if r < bestRank || (r == bestRank && st < bestStamp) {
			best, bestRank, bestStamp = c, r, st
		}
	}
	if best != "" {
		return best
	}
	var qp, qs []string
	queryLiterals(p, &qp)
	queryLiterals(s, &qs)
	if len(qp) != len(qs) {
		return "query-building-call"
	}
	if strings.Join(qp, " ") != strings.Join(qs, " ") {
		return "query-literal-flattened"
	}
	return "zero-argument-call"
}

// Simplified runs api.Simplify on a fresh tree with panic capture.
func (l *Lib) Simplified(in b6.Expression) (s b6.Expression, panicClass string, panicMsg string) {
	site, first, panicked := fastCatch(func() { s = api.Simplify(in, l.Symbols()) })
	if panicked {
		return b6.Expression{}, "Simplify-panics@" + site, first
	}
	return s, "", ""
}

// judge22 compares original and simplified outcomes (reference and VM).
func judge22(t *Tally, what, pTxt, sTxt, reason string, staticBad, literalHead bool, refP, refS Outcome, evP, evS Events, vmP, vmS Outcome) {
	semantic := !Agree(refP, refS)
	if semantic {
		t.Outcome(what + "CHANGED-MEANING:" + reason)
		t.Violate("simplify-changes-meaning:"+reason,
			"Simplify changes the result under the reference semantics\n original:   %s\n simplified: %s\n reference(original)=%s reference(simplified)=%s\n vm(original)=%s vm(simplified)=%s",
			pTxt, sTxt, refP, refS, vmP, vmS)
	}
	if vmS.Panic != "" && vmP.Panic == "" {
		t.Outcome(what + "simplified-panics")
		t.Violate("simplified-tree-panics:"+vmS.Panic,
			"the VM panics on the simplified tree but not on the original\n original:   %s => %s\n simplified: %s => %s", pTxt, vmP, sTxt, vmS)
		return
	}
	if vmP.Panic != "" {
		// C21's findings; the comparison with the original is undefined.
		t.Outcome(what + "original-panics-in-vm(C21)")
		return
	}
	if Agree(vmP, vmS) {
		if !semantic {
			k := vmP.Kind()
			t.Outcome(what + "same:" + k + ":" + reason)
		}
		return
	}
	if semantic {
		return // already reported once, with the reference-level class
	}
	if staticBad {
		// the static check already reported the unbound / re-bound parameter that
		// makes the VM reject or mis-evaluate the simplified tree
		t.Outcome(what + "vm-differs(see static violation):" + reason)
		return
	}
	if literalHead {
		// U3: Simplify turned the function of a call into a literal (eg `(keyed "k")()` => `[#k]()`); the
		// reference interpreter rejects that call when it is evaluated, the VM when it is compiled, which
		// differs only inside lambda bodies that are never entered.
		t.Outcome(what + "unsettled(U3):literal-in-function-position-rejected-at-compile-time:" + reason)
		t.R.Count("unsettled-disagreements", 1)
		return
	}
	if evP.Escaped || evS.Escaped || evP.VariadicPartial || evS.VariadicPartial {
		t.Outcome(what + "unsettled(U1/U2):vm-differs:" + reason)
		t.R.Count("unsettled-disagreements", 1)
		return
	}
	cls := "vm-result-differs-after-simplify:" + vmP.Kind() + "->" + vmS.Kind() + ":" + reason
	t.Outcome(what + "VM-DIFFERS:" + reason)
	t.Violate(cls, "the VM evaluates the simplified tree differently (the reference interpreter gives the same result for both)\n original:   %s => %s\n simplified: %s => %s\n reference: %s",
		pTxt, vmP, sTxt, vmS, refP)
}

// Check22 runs the C22 oracle on one program (builder of fresh stamped trees).
// It returns the number of VM evaluations and whether Simplify changed the tree.
func (l *Lib) Check22(t *Tally, build func() b6.Expression) (evals int64, changed bool) {
	p := build()
	pTxt := Print(p)
	s, pc, pm := l.Simplified(build())
	if pc != "" {
		t.Outcome("simplify-panics")
		t.Violate(pc, "api.Simplify panicked on %s: %s", pTxt, pm)
		return 0, true
	}
	sTxt := Print(s)
	if sTxt == pTxt {
		t.Outcome("unchanged")
		return 0, false
	}
	reason := l.ClassifyChange(p, s)
	staticBad := false
	if cls, detail := l.StaticBindingCheck(p, s); cls != "" {
		staticBad = true
		t.Outcome("STATIC:" + cls + ":" + reason)
		t.Violate("static:"+cls+":"+reason, "%s\n original:   %s\n simplified: %s", detail, pTxt, sTxt)
	}
	literalHead := hasLiteralHead(s) && !hasLiteralHead(p)
	refP, evP := l.RunRef(p)
	if refP.ErrCat == "fuel" {
		t.Outcome("skipped:reference-budget-exhausted")
		return 0, true
	}
	refS, evS := l.RunRef(DeepCopy(s))
	vmP := l.RunVM(build())
	vmS := l.RunVM(DeepCopy(s))
	evals += 2
	judge22(t, "", pTxt, sTxt, reason, staticBad, literalHead, refP, refS, evP, evS, vmP, vmS)

	// behaviour of function results: Simplify(call p 5 6 7) vs call p 5 6 7
	cur := build
	r := refP
	for depth := 0; depth < 2 && r.IsFn && r.Arity >= 0 && r.Arity <= 3 && len(l.Probes) > 0; depth++ {
		k := r.Arity
		var next func() b6.Expression
		for set := range l.Probes {
			set := set
			inner := cur
			d := depth
			mk := func() b6.Expression { return l.Probe(inner(), k, set, d) }
			pp := mk()
			ps, pc, pm := l.Simplified(mk())
			if pc != "" {
				t.Violate(pc, "api.Simplify panicked on %s: %s", Print(pp), pm)
				continue
			}
			prefP, pevP := l.RunRef(pp)
			if prefP.ErrCat == "fuel" {
				continue
			}
			prefS, pevS := l.RunRef(DeepCopy(ps))
			pvmP := l.RunVM(mk())
			pvmS := l.RunVM(DeepCopy(ps))
			evals += 2
			judge22(t, "probe:", Print(pp), Print(ps), reason, staticBad, literalHead, prefP, prefS, pevP, pevS, pvmP, pvmS)
			if set == 0 {
				r = prefP
				next = mk
			}
		}
		if next == nil {
			break
		}
		cur = next
	}
	return evals, true
}
