package vmkit

import (
	"fmt"
	"strings"

	"diagonal.works/b6"
)

// Term is a program of the enumerated space.
type Op uint8

const (
	OLit    Op = iota // literal Lib.Lits[Lit]
	OParam            // lambda parameter Name (in argument position)
	OGlobal           // global function Name used as a value
	OLambda           // {Params -> Fn}
	OGCall            // Name Args...     (function is the global symbol Name)
	OXCall            // (Fn) Args...     (function is a lambda or a call)
)

type Term struct {
	Op     Op
	Lit    int
	Name   string
	Params []string
	Fn     *Term
	Args   []*Term
}

// Size is the number of b6.Expression nodes of the built tree.
func (t *Term) Size() int {
	switch t.Op {
	case OLit, OParam, OGlobal:
		return 1
	case OLambda:
		return 1 + t.Fn.Size()
	case OGCall:
		n := 2
		for _, a := range t.Args {
			n += a.Size()
		}
		return n
	default:
		n := 1 + t.Fn.Size()
		for _, a := range t.Args {
			n += a.Size()
		}
		return n
	}
}

// Features are static properties of a term used for coverage counters.
type Features struct {
	Lambdas, NestedLambdas, Shadowing    int
	DirectLambdaCalls, CallOnCall        int
	SyntacticPartials, ZeroArgCalls      int
	TooMany, OneArgCalls                 int
	UnusedParams, RepeatedParams, Params int
}

func (t *Term) Features() Features {
	var f Features
	var rec func(t *Term, scope []string, depth int) map[string]int
	rec = func(t *Term, scope []string, depth int) map[string]int {
		uses := map[string]int{}
		merge := func(m map[string]int) {
			for k, v := range m {
				uses[k] += v
			}
		}
		switch t.Op {
		case OParam:
			uses[t.Name]++
		case OLambda:
			f.Lambdas++
			if depth > 0 {
				f.NestedLambdas++
			}
			for _, p := range t.Params {
				for _, s := range scope {
					if s == p {
						f.Shadowing++
					}
				}
			}
			inner := rec(t.Fn, append(append([]string{}, scope...), t.Params...), depth+1)
			for _, p := range t.Params {
				f.Params++
				if inner[p] == 0 {
					f.UnusedParams++
				} else if inner[p] > 1 {
					f.RepeatedParams++
				}
				delete(inner, p)
			}
			merge(inner)
		case OGCall, OXCall:
			if t.Op == OXCall {
				if t.Fn.Op == OLambda {
					f.DirectLambdaCalls++
				} else {
					f.CallOnCall++
				}
				merge(rec(t.Fn, scope, depth))
			}
			if len(t.Args) == 0 {
				f.ZeroArgCalls++
			}
			if len(t.Args) == 1 {
				f.OneArgCalls++
			}
			for _, a := range t.Args {
				merge(rec(a, scope, depth))
			}
		}
		return uses
	}
	rec(t, nil, 0)
	return f
}

// BuildOpts control how a Term is turned into a b6.Expression.
type BuildOpts struct {
	// Pipelined marks every call with exactly one argument as pipelined
	// (`x | f`), the shape the shell grammar produces for pipelines.
	Pipelined bool
}

// Build constructs a fresh b6.Expression; every node gets a unique stamp in
// Begin/End (preorder index, from 1) so that nodes can be identified after
// api.Simplify.
func (l *Lib) Build(t *Term, o BuildOpts) b6.Expression {
	id := 0
	return l.build(t, o, &id)
}

func (l *Lib) build(t *Term, o BuildOpts, id *int) b6.Expression {
	*id++
	my := *id
	var e b6.Expression
	switch t.Op {
	case OLit:
		e = l.Lits[t.Lit].Expr()
	case OParam, OGlobal:
		e = b6.NewSymbolExpression(t.Name)
	case OLambda:
		e = b6.NewLambdaExpression(append([]string{}, t.Params...), l.build(t.Fn, o, id))
	case OGCall, OXCall:
		var fn b6.Expression
		if t.Op == OGCall {
			*id++
			fn = b6.NewSymbolExpression(t.Name)
			fn.Begin, fn.End = *id, *id
		} else {
			fn = l.build(t.Fn, o, id)
		}
		args := make([]b6.Expression, len(t.Args))
		for i, a := range t.Args {
			args[i] = l.build(a, o, id)
		}
		e = b6.Expression{AnyExpression: b6.CallExpression{Function: fn, Args: args, Pipelined: o.Pipelined && len(args) == 1}}
	}
	e.Begin, e.End = my, my
	return e
}

// Print renders any expression (original or simplified) in a harness-owned
// canonical syntax; it is also used to decide whether Simplify changed a tree.
func Print(e b6.Expression) string {
	switch x := e.AnyExpression.(type) {
	case nil:
		return "<empty>"
	case b6.SymbolExpression:
		return string(x)
	case b6.IntExpression:
		return fmt.Sprint(int(x))
	case b6.StringExpression:
		return fmt.Sprintf("%q", string(x))
	case b6.QueryExpression:
		return "Q" + rawQuery(x.Query)
	case b6.LambdaExpression:
		return "{" + strings.Join(x.Args, " ") + " -> " + Print(x.Expression) + "}"
	case b6.CallExpression:
		head := Print(x.Function)
		if _, ok := x.Function.AnyExpression.(b6.CallExpression); ok {
			head = "(" + head + ")"
		}
		if len(x.Args) == 0 {
			return head + "()"
		}
		parts := make([]string, len(x.Args))
		for i, a := range x.Args {
			parts[i] = Print(a)
			if _, ok := a.AnyExpression.(b6.CallExpression); ok {
				parts[i] = "(" + parts[i] + ")"
			}
		}
		if x.Pipelined && len(x.Args) == 1 {
			return parts[0] + " | " + head
		}
		return head + " " + strings.Join(parts, " ")
	}
	return fmt.Sprintf("<%T %v>", e.AnyExpression, e.AnyExpression)
}

// rawQuery prints a query literal without the and/or flattening of canonQuery.
func rawQuery(q b6.Query) string {
	switch x := q.(type) {
	case b6.Intersection:
		s := make([]string, len(x))
		for i := range x {
			s[i] = rawQuery(x[i])
		}
		return "[and " + strings.Join(s, " ") + "]"
	case b6.Union:
		s := make([]string, len(x))
		for i := range x {
			s[i] = rawQuery(x[i])
		}
		return "[or " + strings.Join(s, " ") + "]"
	case b6.Typed:
		return "[typed " + x.Type.String() + " " + rawQuery(x.Query) + "]"
	}
	return canonQuery(q).String()
}

func (l *Lib) String(t *Term) string { return Print(l.Build(t, BuildOpts{})) }

// ---- counting / unranking ----

const namePool = "abc"

func nameBit(s string) uint8 {
	i := strings.Index(namePool, s)
	if i < 0 || len(s) != 1 {
		panic("vmkit: parameter names must come from " + namePool)
	}
	return 1 << uint(i)
}

type ekey struct {
	n   int
	k   Kind
	env uint8
}

type skey struct {
	sig   uint64
	total int
	env   uint8
}

// Enum enumerates all kind-correct terms of a library, index-addressably.
type Enum struct {
	Lib   *Lib
	exact map[ekey]int64
	seqs  map[skey]int64
	prods map[ekey][]production
}

func NewEnum(l *Lib) *Enum {
	return &Enum{Lib: l, exact: map[ekey]int64{}, seqs: map[skey]int64{}, prods: map[ekey][]production{}}
}

func adm(e Kind) []Kind {
	if e == KAny {
		return []Kind{KInt, KPair, KFn, KStr, KQuery, KAny}
	}
	return []Kind{e, KAny}
}

// Count is the number of terms of exactly n nodes admissible where kind e is expected.
func (en *Enum) Count(n int, e Kind, env uint8) int64 {
	var t int64
	for _, k := range adm(e) {
		t += en.Exact(n, k, env)
	}
	return t
}

func (en *Enum) Exact(n int, k Kind, env uint8) int64 {
	if n < 1 {
		return 0
	}
	kk := ekey{n, k, env}
	if v, ok := en.exact[kk]; ok {
		return v
	}
	var t int64
	for _, p := range en.productions(n, k, env) {
		t += p.count
	}
	en.exact[kk] = t
	return t
}

func sig(slots []Kind) uint64 {
	s := uint64(1)
	for _, k := range slots {
		s = s*8 + uint64(k)
	}
	return s
}

func (en *Enum) seq(slots []Kind, total int, env uint8) int64 {
	if len(slots) == 0 {
		if total == 0 {
			return 1
		}
		return 0
	}
	if total < len(slots) {
		return 0
	}
	key := skey{sig(slots), total, env}
	if v, ok := en.seqs[key]; ok {
		return v
	}
	var t int64
	for s := 1; s <= total-(len(slots)-1); s++ {
		c := en.Count(s, slots[0], env)
		if c == 0 {
			continue
		}
		t += c * en.seq(slots[1:], total-s, env)
	}
	en.seqs[key] = t
	return t
}

func (en *Enum) unrankSeq(slots []Kind, total int, env uint8, idx int64) []*Term {
	if len(slots) == 0 {
		return nil
	}
	for s := 1; s <= total-(len(slots)-1); s++ {
		c := en.Count(s, slots[0], env)
		if c == 0 {
			continue
		}
		rest := en.seq(slots[1:], total-s, env)
		if idx < c*rest {
			first := en.UnrankAdm(s, slots[0], env, idx/rest)
			return append([]*Term{first}, en.unrankSeq(slots[1:], total-s, env, idx%rest)...)
		}
		idx -= c * rest
	}
	panic("vmkit: unrankSeq index out of range")
}

// UnrankAdm returns the idx-th term of n nodes admissible for expected kind e.
func (en *Enum) UnrankAdm(n int, e Kind, env uint8, idx int64) *Term {
	for _, k := range adm(e) {
		c := en.Exact(n, k, env)
		if idx < c {
			return en.unrankExact(n, k, env, idx)
		}
		idx -= c
	}
	panic("vmkit: UnrankAdm index out of range")
}

func (en *Enum) unrankKinds(n int, ks []Kind, env uint8, idx int64) *Term {
	for _, k := range ks {
		c := en.Exact(n, k, env)
		if idx < c {
			return en.unrankExact(n, k, env, idx)
		}
		idx -= c
	}
	panic("vmkit: unrankKinds index out of range")
}

func (en *Enum) unrankExact(n int, k Kind, env uint8, idx int64) *Term {
	for _, p := range en.productions(n, k, env) {
		if idx < p.count {
			return p.build(idx)
		}
		idx -= p.count
	}
	panic("vmkit: unrankExact index out of range")
}

type production struct {
	count int64
	build func(idx int64) *Term
}

// callShapes lists, for a global, the generated argument counts with the kind
// of the call and the expected kinds of the argument slots. A call with fewer
// arguments than the arity binds the TRAILING parameters.
type callShape struct {
	result Kind
	slots  []Kind
}

func (l *Lib) callShapes(g *Global) []callShape {
	var out []callShape
	ar := g.Arity()
	if g.Variadic {
		// zero-argument calls of a variadic function are not generated (U2)
		for na := ar - 1; na <= ar+2; na++ {
			if na == 0 {
				continue
			}
			slots := append([]Kind{}, g.Kinds[:ar-1]...)
			for len(slots) < na {
				slots = append(slots, g.Kinds[ar-1])
			}
			out = append(out, callShape{g.Result, slots})
		}
		return out
	}
	for na := 0; na <= ar+1; na++ {
		switch {
		case na < ar:
			out = append(out, callShape{KFn, append([]Kind{}, g.Kinds[ar-na:]...)})
		case na == ar:
			out = append(out, callShape{g.Result, append([]Kind{}, g.Kinds...)})
		default:
			if !g.NoExtra {
				out = append(out, callShape{KAny, append(append([]Kind{}, g.Kinds...), KAny)})
			}
		}
	}
	return out
}

func (en *Enum) productions(n int, k Kind, env uint8) []production {
	key := ekey{n, k, env}
	if ps, ok := en.prods[key]; ok {
		return ps
	}
	ps := en.productions1(n, k, env)
	en.prods[key] = ps
	return ps
}

func (en *Enum) productions1(n int, k Kind, env uint8) []production {
	l := en.Lib
	var ps []production
	if n == 1 {
		for i, lit := range l.Lits {
			if lit.Kind == k {
				i := i
				ps = append(ps, production{1, func(int64) *Term { return &Term{Op: OLit, Lit: i} }})
			}
		}
		if k == KAny {
			for _, c := range namePool {
				name := string(c)
				if env&nameBit(name) != 0 {
					ps = append(ps, production{1, func(int64) *Term { return &Term{Op: OParam, Name: name} }})
				}
			}
		}
		if k == KFn {
			for _, g := range l.Globals {
				g := g
				ps = append(ps, production{1, func(int64) *Term { return &Term{Op: OGlobal, Name: g.Name} }})
			}
		}
		return ps
	}
	if k == KFn {
		lists := l.ParamLists
		if env != 0 {
			lists = append(append([][]string{}, lists...), l.ParamListsNested...)
		}
		for _, pl := range lists {
			pl := pl
			env2 := env
			for _, p := range pl {
				env2 |= nameBit(p)
			}
			c := en.Count(n-1, KAny, env2)
			if c > 0 {
				ps = append(ps, production{c, func(idx int64) *Term {
					return &Term{Op: OLambda, Params: pl, Fn: en.UnrankAdm(n-1, KAny, env2, idx)}
				}})
			}
		}
	}
	for _, g := range l.Globals {
		g := g
		for _, sh := range l.callShapes(g) {
			if sh.result != k {
				continue
			}
			sh := sh
			c := en.seq(sh.slots, n-2, env)
			if c > 0 {
				ps = append(ps, production{c, func(idx int64) *Term {
					return &Term{Op: OGCall, Name: g.Name, Args: en.unrankSeq(sh.slots, n-2, env, idx)}
				}})
			}
		}
	}
	if k == KAny {
		for sf := 2; sf <= n-1; sf++ {
			sf := sf
			cf := en.Exact(sf, KFn, env) + en.Exact(sf, KAny, env)
			if cf == 0 {
				continue
			}
			for na := 0; na <= l.MaxXArgs; na++ {
				slots := make([]Kind, na)
				for i := range slots {
					slots[i] = KAny
				}
				cs := en.seq(slots, n-1-sf, env)
				if cs == 0 {
					continue
				}
				ps = append(ps, production{cf * cs, func(idx int64) *Term {
					return &Term{Op: OXCall,
						Fn:   en.unrankKinds(sf, []Kind{KFn, KAny}, env, idx/cs),
						Args: en.unrankSeq(slots, n-1-sf, env, idx%cs)}
				}})
			}
		}
	}
	return ps
}

// Programs is the index-addressable list of all closed programs of 1..MaxSize
// nodes (any kind), ordered by size.
type Programs struct {
	En      *Enum
	MinSize int
	MaxSize int
	cum     []int64 // cum[i] = number of programs of size < MinSize+i
}

func NewPrograms(l *Lib, minSize, maxSize int) *Programs {
	p := &Programs{En: NewEnum(l), MinSize: minSize, MaxSize: maxSize}
	var c int64
	for n := minSize; n <= maxSize; n++ {
		p.cum = append(p.cum, c)
		c += p.En.Count(n, KAny, 0)
	}
	p.cum = append(p.cum, c)
	return p
}

func (p *Programs) Len() int64 { return p.cum[len(p.cum)-1] }

func (p *Programs) CountOfSize(n int) int64 { return p.En.Count(n, KAny, 0) }

func (p *Programs) At(i int64) *Term {
	for j := 0; j+1 < len(p.cum); j++ {
		if i < p.cum[j+1] {
			return p.En.UnrankAdm(p.MinSize+j, KAny, 0, i-p.cum[j])
		}
	}
	panic("vmkit: program index out of range")
}
