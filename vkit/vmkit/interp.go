package vmkit

import (
	"fmt"
	"strings"

	"diagonal.works/b6"
)

// Val is a value of the reference interpreter.
type Val interface{}

type IntV int
type StrV string
type PairV struct{ A, B Val }

// QueryV is a query value in canonical structural form (see canonQuery).
type QueryV struct{ Q qnode }

// OpaqueV is any literal the harness does not model.
type OpaqueV struct{ S string }

// FnV is a function value.
type FnV interface{ fnArity() int }

type GlobalFn struct{ G *Global }
type Closure struct {
	Params []string
	Body   b6.Expression
	Env    *Frame
	ID     int // stamp of the lambda expression
}
type Partial struct {
	Fn    FnV
	Bound []Val // the trailing arguments
}
type Composed struct{ F, G FnV }

func (g *GlobalFn) fnArity() int { return g.G.Arity() }
func (c *Closure) fnArity() int  { return len(c.Params) }
func (p *Partial) fnArity() int  { return p.Fn.fnArity() - len(p.Bound) }
func (c *Composed) fnArity() int { return 1 }

func Arity(f FnV) int { return f.fnArity() }

type Frame struct {
	Names  []string
	Vals   []Val
	Alive  bool
	Parent *Frame
}

type RefError struct {
	Cat string // arity | type | unbound | fail | fuel
	Msg string
}

func (e *RefError) Error() string { return e.Cat + ": " + e.Msg }

// Events observed during one reference evaluation.
type Events struct {
	Applications    int  // function applications performed
	Partials        int  // partial applications created (with at least one bound argument)
	PartialOfPart   int  // partial applications of a partial application ("twice")
	ZeroArgPartials int  // applications with zero arguments to a function of arity > 0
	ClosureCalls    int  // lambda bodies entered
	Escaped         bool // U1
	Reentrant       bool // a lambda literal was entered while an activation of the same literal was live
	VariadicPartial bool // U2
	LibCalls        int
}

type Interp struct {
	Lib    *Lib
	Ev     Events
	steps  int
	depth  int
	active map[int]int
}

const maxSteps = 20000
const maxDepth = 150

func NewInterp(l *Lib) *Interp { return &Interp{Lib: l, active: map[int]int{}} }

// Eval evaluates a closed program. Trees without stamps are stamped first
// (lambda identity, used only to detect re-entrancy, is the stamp).
func (it *Interp) Eval(e b6.Expression) (Val, error) {
	if e.Begin == 0 {
		e = Restamp(e)
	}
	return it.eval(e, nil)
}

func (it *Interp) lookup(name string, env *Frame) (Val, bool) {
	for f := env; f != nil; f = f.Parent {
		for i, n := range f.Names {
			if n == name {
				if !f.Alive {
					it.Ev.Escaped = true
				}
				return f.Vals[i], true
			}
		}
	}
	return nil, false
}

func (it *Interp) eval(e b6.Expression, env *Frame) (Val, error) {
	it.steps++
	if it.steps > maxSteps {
		return nil, &RefError{Cat: "fuel", Msg: "step budget exhausted"}
	}
	switch x := e.AnyExpression.(type) {
	case b6.IntExpression:
		return IntV(int(x)), nil
	case b6.StringExpression:
		return StrV(string(x)), nil
	case b6.QueryExpression:
		return &QueryV{Q: canonQuery(x.Query)}, nil
	case b6.SymbolExpression:
		if v, ok := it.lookup(string(x), env); ok {
			return v, nil
		}
		if g, ok := it.Lib.Global(string(x)); ok {
			return &GlobalFn{G: g}, nil
		}
		return nil, &RefError{Cat: "unbound", Msg: "undefined symbol " + string(x)}
	case b6.LambdaExpression:
		return &Closure{Params: x.Args, Body: x.Expression, Env: env, ID: e.Begin}, nil
	case b6.CallExpression:
		args := make([]Val, len(x.Args))
		for i, a := range x.Args {
			v, err := it.eval(a, env)
			if err != nil {
				return nil, err
			}
			args[i] = v
		}
		var f FnV
		switch fx := x.Function.AnyExpression.(type) {
		case b6.SymbolExpression:
			g, ok := it.Lib.Global(string(fx))
			if !ok {
				return nil, &RefError{Cat: "unbound", Msg: "call of a symbol that is not a global function: " + string(fx)}
			}
			f = &GlobalFn{G: g}
		case b6.LambdaExpression, b6.CallExpression:
			v, err := it.eval(x.Function, env)
			if err != nil {
				return nil, err
			}
			fv, ok := v.(FnV)
			if !ok {
				return nil, &RefError{Cat: "type", Msg: "call of a value that is not a function: " + Show(v)}
			}
			f = fv
		default:
			return nil, &RefError{Cat: "type", Msg: fmt.Sprintf("can't call %T", x.Function.AnyExpression)}
		}
		return it.Apply(f, args)
	case nil:
		return nil, &RefError{Cat: "type", Msg: "empty expression"}
	default:
		if l, ok := e.AnyExpression.(b6.AnyLiteral); ok {
			return &OpaqueV{S: fmt.Sprintf("%T:%v", l, l)}, nil
		}
		return nil, &RefError{Cat: "type", Msg: fmt.Sprintf("can't evaluate %T", e.AnyExpression)}
	}
}

func checkType(t PType, v Val) bool {
	switch t {
	case TAny:
		return true
	case TNumber, TInt:
		_, ok := v.(IntV)
		return ok
	case TPair:
		_, ok := v.(*PairV)
		return ok
	case TFn1:
		f, ok := v.(FnV)
		return ok && f.fnArity() == 1
	case TCallable:
		if _, ok := v.(*QueryV); ok {
			return true // api.convertQueryToCallable: a query is usable as the 1-argument function `matches q`
		}
		_, ok := v.(FnV)
		return ok
	case TString:
		_, ok := v.(StrV)
		return ok
	case TQuery:
		_, ok := v.(*QueryV)
		return ok
	}
	return false
}

// Apply applies a function value to arguments (rules R4-R6).
func (it *Interp) Apply(f FnV, args []Val) (Val, error) {
	it.steps++
	it.Ev.Applications++
	if it.steps > maxSteps || it.depth > maxDepth {
		return nil, &RefError{Cat: "fuel", Msg: "budget exhausted"}
	}
	it.depth++
	defer func() { it.depth-- }()

	min, max := need(f)
	if p, ok := f.(*Partial); ok && isVariadicBase(p) {
		it.Ev.VariadicPartial = true
	}
	if max >= 0 && len(args) > max {
		return nil, &RefError{Cat: "arity", Msg: fmt.Sprintf("expected at most %d arguments, found %d", max, len(args))}
	}
	if len(args) < min {
		if len(args) == 0 {
			it.Ev.ZeroArgPartials++
		} else {
			it.Ev.Partials++
			if _, ok := f.(*Partial); ok {
				it.Ev.PartialOfPart++
			}
		}
		return &Partial{Fn: f, Bound: append([]Val{}, args...)}, nil
	}
	switch fn := f.(type) {
	case *Partial:
		all := append(append([]Val{}, args...), fn.Bound...)
		return it.Apply(fn.Fn, all)
	case *GlobalFn:
		g := fn.G
		it.Ev.LibCalls++
		for i, a := range args {
			ti := i
			if ti >= len(g.Types) {
				ti = len(g.Types) - 1
			}
			if !checkType(g.Types[ti], a) {
				return nil, &RefError{Cat: "type", Msg: fmt.Sprintf("%s: argument %d: expected %v, found %s", g.Name, i, g.Types[ti], Show(a))}
			}
		}
		return g.Ref(it, args)
	case *Closure:
		it.Ev.ClosureCalls++
		if it.active[fn.ID] > 0 {
			it.Ev.Reentrant = true
		}
		it.active[fn.ID]++
		fr := &Frame{Names: fn.Params, Vals: args, Alive: true, Parent: fn.Env}
		v, err := it.eval(fn.Body, fr)
		fr.Alive = false
		it.active[fn.ID]--
		return v, err
	case *Composed:
		y, err := it.Apply(fn.F, []Val{args[0]})
		if err != nil {
			return nil, err
		}
		return it.Apply(fn.G, []Val{y})
	}
	return nil, &RefError{Cat: "type", Msg: "not a function"}
}

// matchesQuery models the native function api.convertQueryToCallable builds
// from a query: one argument, which must be a feature (the harness has none).
var matchesQuery = &Global{Name: "matches-query", Kinds: []Kind{KAny}, Types: []PType{TAny}, Result: KAny,
	Ref: func(it *Interp, a []Val) (Val, error) {
		return nil, &RefError{Cat: "type", Msg: "expected a feature, found " + Show(a[0])}
	}}

// AsFn converts a value accepted by a TCallable parameter to a function.
func AsFn(v Val) FnV {
	if _, ok := v.(*QueryV); ok {
		return &GlobalFn{G: matchesQuery}
	}
	return v.(FnV)
}

// need returns the minimum number of arguments that invokes f (fewer make a
// partial application) and the maximum accepted (-1 = unbounded).
func need(f FnV) (int, int) {
	switch fn := f.(type) {
	case *GlobalFn:
		if fn.G.Variadic {
			return fn.G.Arity() - 1, -1
		}
		return fn.G.Arity(), fn.G.Arity()
	case *Partial:
		min, max := need(fn.Fn)
		min -= len(fn.Bound)
		if min < 0 {
			min = 0
		}
		if max >= 0 {
			max -= len(fn.Bound)
		}
		return min, max
	}
	return f.fnArity(), f.fnArity()
}

func isVariadicBase(p *Partial) bool {
	switch b := p.Fn.(type) {
	case *GlobalFn:
		return b.G.Variadic
	case *Partial:
		return isVariadicBase(b)
	}
	return false
}

// Show renders a value in the normal form shared with the VM side (NormVM).
func Show(v Val) string {
	switch x := v.(type) {
	case IntV:
		return fmt.Sprint(int(x))
	case StrV:
		return fmt.Sprintf("%q", string(x))
	case *PairV:
		return "(" + Show(x.A) + " . " + Show(x.B) + ")"
	case *QueryV:
		return "Q" + x.Q.String()
	case *OpaqueV:
		return "?" + x.S
	case FnV:
		return "<fn>"
	case nil:
		return "<nil>"
	}
	return fmt.Sprintf("?%T", v)
}

// ---- canonical queries ----

// qnode is a structural query: and/or are kept n-ary and nested and/or of the
// same operator are flattened (associativity), which is the only rewriting
// api.simplifyQuery performs and does not change which features match.
type qnode struct {
	Op   string // keyed tagged typed and or all other
	A, B string
	Kids []qnode
}

func (q qnode) String() string {
	switch q.Op {
	case "keyed":
		return "[key " + q.A + "]"
	case "tagged":
		return "[" + q.A + "=" + q.B + "]"
	case "all":
		return "[all]"
	case "typed":
		return "[typed " + q.A + " " + q.Kids[0].String() + "]"
	case "and", "or":
		s := make([]string, len(q.Kids))
		for i, k := range q.Kids {
			s[i] = k.String()
		}
		return "[" + q.Op + " " + strings.Join(s, " ") + "]"
	}
	return "[?" + q.A + "]"
}

// Nested reports whether the un-flattened query had an and directly inside an
// and (or an or inside an or).
func flattenQ(op string, kids []qnode) qnode {
	var out []qnode
	for _, k := range kids {
		if k.Op == op {
			out = append(out, k.Kids...)
		} else {
			out = append(out, k)
		}
	}
	return qnode{Op: op, Kids: out}
}

func canonQuery(q b6.Query) qnode {
	switch x := q.(type) {
	case b6.Keyed:
		return qnode{Op: "keyed", A: x.Key}
	case b6.Tagged:
		return qnode{Op: "tagged", A: x.Key, B: x.Value.String()}
	case b6.All:
		return qnode{Op: "all"}
	case b6.Typed:
		return qnode{Op: "typed", A: x.Type.String(), Kids: []qnode{canonQuery(x.Query)}}
	case b6.Intersection:
		kids := make([]qnode, len(x))
		for i := range x {
			kids[i] = canonQuery(x[i])
		}
		return flattenQ("and", kids)
	case b6.Union:
		kids := make([]qnode, len(x))
		for i := range x {
			kids[i] = canonQuery(x[i])
		}
		return flattenQ("or", kids)
	}
	return qnode{Op: "other", A: fmt.Sprintf("%T", q)}
}
