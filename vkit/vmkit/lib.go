// Package vmkit is shared by the C21 and C22 checks: a harness-owned typed
// function library registered with the real VM (api.FunctionSymbols + the real
// adaptors of api/functions), an index-addressable enumerator of all
// kind-correct programs (b6.Expression trees) up to a node bound, and an
// independent big-step reference interpreter.
//
// Language rules implemented by the reference interpreter (interp.go), stated
// so they can be challenged:
//
//	R1 call-by-value, arguments evaluated left to right, the first error aborts.
//	R2 lexical scoping: a symbol denotes the innermost enclosing lambda
//	   parameter of that name, else the global function of that name, else it
//	   is an error.
//	R3 a symbol in call position must be a global function (function *values*
//	   are invoked with `call`, or by a call whose function is itself a lambda
//	   or a call).
//	R4 applying a function of arity k to n<k arguments yields a partial
//	   application that binds the TRAILING n parameters; the remaining k-n
//	   leading parameters are supplied by the later call. n>k is an arity error.
//	   n=0<k is a partial application binding nothing.
//	R5 applying something that is not a function, or passing a value of the
//	   wrong type to a typed library parameter, is a type error. A library
//	   parameter of Go type func(*Context, interface{}) (interface{}, error)
//	   accepts exactly the functions of arity 1 (the rule of
//	   api.ConvertWithContext).
//	R6 an error returned by a library function aborts evaluation.
//
// Three areas the property statement does not settle are detected dynamically by
// the interpreter and reported as separate outcomes instead of violations when
// the VM merely disagrees (a VM panic is always a violation):
//
//	U1 a closure reads a parameter of an enclosing lambda whose activation has
//	   already returned ("closure escaping its binder").
//	U2 a partial application of a variadic library function is applied.
//	U3 (C22 only) api.Simplify leaves a literal in the function position of a
//	   call (`(keyed "k")()` => `[#k]()`): the interpreter rejects such a call
//	   when it is evaluated, the VM when the program is compiled; observable
//	   only inside lambda bodies that are never entered.
package vmkit

import (
	"context"
	"errors"
	"fmt"

	"diagonal.works/b6"
	"diagonal.works/b6/api"
	"diagonal.works/b6/api/functions"
)

// Kind is the coarse static type used to prune the enumeration. KAny is the
// kind of lambda parameters and of results of first/second/apply/call/...;
// a slot expecting kind K admits terms of kind K or KAny, a slot expecting
// KAny admits every term. Dynamic type errors therefore remain reachable.
type Kind uint8

const (
	KInt Kind = iota
	KPair
	KFn
	KStr
	KQuery
	KAny
	numKinds
)

func (k Kind) String() string {
	return [...]string{"int", "pair", "fn", "str", "query", "any"}[k]
}

// PType is the dynamic parameter type the reference interpreter enforces.
type PType uint8

const (
	TAny      PType = iota
	TNumber         // Go b6.Number: accepts ints
	TInt            // Go int: accepts ints
	TPair           // Go api.Pair
	TFn1            // Go func(*Context, interface{}) (interface{}, error): functions of arity exactly 1
	TCallable       // Go api.Callable: any function
	TString         // Go string
	TQuery          // Go b6.Query
)

type Global struct {
	Name     string
	Kinds    []Kind  // enumeration kinds of the declared parameters
	Types    []PType // dynamic parameter types (reference interpreter)
	Variadic bool    // last declared parameter is variadic (counted as one parameter for arity)
	Result   Kind
	Impl     interface{} // the Go function registered in api.FunctionSymbols
	// Ref computes the result for a complete, type-checked argument list.
	Ref func(it *Interp, args []Val) (Val, error)
	// NoExtra suppresses generation of the arity+1 ("too many arguments") call shape.
	NoExtra bool
}

func (g *Global) Arity() int { return len(g.Kinds) }

type Lit struct {
	Kind  Kind
	Label string
	Expr  func() b6.Expression
}

type Lib struct {
	Name    string
	Globals []*Global
	Lits    []Lit
	// ParamLists: lambda parameter lists generated; the second set only under a non-empty environment.
	ParamLists       [][]string
	ParamListsNested [][]string
	MaxXArgs         int // max number of arguments of a call whose function is a lambda or a call
	Probes           [][]func() b6.Expression
	symbols          api.FunctionSymbols
	byName           map[string]*Global
}

func (l *Lib) finish() *Lib {
	l.symbols = api.FunctionSymbols{}
	l.byName = map[string]*Global{}
	for _, g := range l.Globals {
		if len(g.Kinds) != len(g.Types) {
			panic("lib: " + g.Name)
		}
		l.symbols[g.Name] = g.Impl
		l.byName[g.Name] = g
		if err := functions.Validate(g.Impl, g.Name); err != nil {
			panic(err)
		}
	}
	return l
}

func (l *Lib) Symbols() api.FunctionSymbols { return l.symbols }
func (l *Lib) Global(name string) (*Global, bool) {
	g, ok := l.byName[name]
	return g, ok
}

// NewContext returns a fresh evaluation context using the REAL adaptors.
func (l *Lib) NewContext() *api.Context {
	return &api.Context{
		World:           b6.EmptyWorld{},
		FunctionSymbols: l.symbols,
		Adaptors:        functions.Adaptors(),
		Context:         context.Background(),
	}
}

// ---- the Go side of the harness-owned library ----

type fn1 = func(*api.Context, interface{}) (interface{}, error)

func goAdd(c *api.Context, a b6.Number, b b6.Number) (b6.Number, error) {
	x, ok1 := a.(b6.IntNumber)
	y, ok2 := b.(b6.IntNumber)
	if !ok1 || !ok2 {
		return nil, fmt.Errorf("add: expected integers")
	}
	return b6.IntNumber(int(x) + int(y)), nil
}

func goPair(c *api.Context, a interface{}, b interface{}) (api.Pair, error) {
	return api.AnyAnyPair{a, b}, nil
}

func goFirst(c *api.Context, p api.Pair) (interface{}, error)  { return p.First(), nil }
func goSecond(c *api.Context, p api.Pair) (interface{}, error) { return p.Second(), nil }

func goApply(c *api.Context, f fn1, x interface{}) (interface{}, error) { return f(c, x) }

func goCompose(c *api.Context, f fn1, g fn1) (fn1, error) {
	return func(c *api.Context, x interface{}) (interface{}, error) {
		y, err := f(c, x)
		if err != nil {
			return nil, err
		}
		return g(c, y)
	}, nil
}

func goMix3(c *api.Context, a int, b int, d int) (int, error) { return 100*a + 10*b + d, nil }

func goFail(c *api.Context, x interface{}) (interface{}, error) {
	return nil, errors.New("fail: always fails")
}

// ---- reference side ----

func refAdd(it *Interp, a []Val) (Val, error)    { return IntV(int(a[0].(IntV)) + int(a[1].(IntV))), nil }
func refPair(it *Interp, a []Val) (Val, error)   { return &PairV{a[0], a[1]}, nil }
func refFirst(it *Interp, a []Val) (Val, error)  { return a[0].(*PairV).A, nil }
func refSecond(it *Interp, a []Val) (Val, error) { return a[0].(*PairV).B, nil }
func refApply(it *Interp, a []Val) (Val, error)  { return it.Apply(a[0].(FnV), []Val{a[1]}) }
func refCompose(it *Interp, a []Val) (Val, error) {
	return &Composed{F: a[0].(FnV), G: a[1].(FnV)}, nil
}
func refCall(it *Interp, a []Val) (Val, error) { return it.Apply(AsFn(a[0]), a[1:]) }
func refMix3(it *Interp, a []Val) (Val, error) {
	return IntV(100*int(a[0].(IntV)) + 10*int(a[1].(IntV)) + int(a[2].(IntV))), nil
}
func refFail(it *Interp, a []Val) (Val, error) {
	return nil, &RefError{Cat: "fail", Msg: "fail: always fails"}
}

func intLit(i int) Lit {
	return Lit{Kind: KInt, Label: fmt.Sprint(i), Expr: func() b6.Expression { return b6.NewIntExpression(i) }}
}

func intProbe(i int) func() b6.Expression {
	return func() b6.Expression { return b6.NewIntExpression(i) }
}

// realCall is the repository's own `call` (function values are invoked with it).
func realCall() interface{} { return functions.Functions()["call"] }

func globalAdd() *Global {
	return &Global{Name: "add", Kinds: []Kind{KInt, KInt}, Types: []PType{TNumber, TNumber}, Result: KInt, Impl: goAdd, Ref: refAdd}
}
func globalPair() *Global {
	return &Global{Name: "pair", Kinds: []Kind{KAny, KAny}, Types: []PType{TAny, TAny}, Result: KPair, Impl: goPair, Ref: refPair}
}
func globalFirst() *Global {
	return &Global{Name: "first", Kinds: []Kind{KPair}, Types: []PType{TPair}, Result: KAny, Impl: goFirst, Ref: refFirst}
}
func globalSecond() *Global {
	return &Global{Name: "second", Kinds: []Kind{KPair}, Types: []PType{TPair}, Result: KAny, Impl: goSecond, Ref: refSecond}
}
func globalApply() *Global {
	return &Global{Name: "apply", Kinds: []Kind{KFn, KAny}, Types: []PType{TFn1, TAny}, Result: KAny, Impl: goApply, Ref: refApply}
}
func globalCompose() *Global {
	return &Global{Name: "compose", Kinds: []Kind{KFn, KFn}, Types: []PType{TFn1, TFn1}, Result: KFn, Impl: goCompose, Ref: refCompose}
}
func globalCall() *Global {
	return &Global{Name: "call", Kinds: []Kind{KFn, KAny}, Types: []PType{TCallable, TAny}, Variadic: true, Result: KAny, Impl: realCall(), Ref: refCall}
}
func globalMix3() *Global {
	return &Global{Name: "mix3", Kinds: []Kind{KInt, KInt, KInt}, Types: []PType{TInt, TInt, TInt}, Result: KInt, Impl: goMix3, Ref: refMix3}
}
func globalFail() *Global {
	return &Global{Name: "fail", Kinds: []Kind{KAny}, Types: []PType{TAny}, Result: KAny, Impl: goFail, Ref: refFail}
}

var defaultParamLists = [][]string{{}, {"a"}, {"a", "b"}, {"a", "b", "c"}}
var defaultParamListsNested = [][]string{{"b"}, {"b", "a"}}

// IntLib is the C21 library: integers, pairs and higher-order functions.
func IntLib() *Lib {
	return (&Lib{
		Name: "int",
		Globals: []*Global{
			globalAdd(), globalPair(), globalFirst(), globalSecond(), globalApply(),
			globalCompose(), globalCall(), globalMix3(), globalFail(),
		},
		Lits:             []Lit{intLit(1), intLit(2)},
		ParamLists:       defaultParamLists,
		ParamListsNested: defaultParamListsNested,
		MaxXArgs:         3,
		Probes:           [][]func() b6.Expression{{intProbe(5), intProbe(6), intProbe(7), intProbe(8), intProbe(9), intProbe(3)}},
	}).finish()
}

// CoreLib is IntLib reduced to the functions that matter for the calling
// convention (used for the deepest size layer of the thorough tier).
func CoreLib() *Lib {
	mix := globalMix3()
	mix.NoExtra = true
	pair := globalPair()
	pair.NoExtra = true
	first := globalFirst()
	first.NoExtra = true
	call := globalCall()
	return (&Lib{
		Name:             "core",
		Globals:          []*Global{pair, first, call, mix},
		Lits:             []Lit{intLit(1), intLit(2)},
		ParamLists:       [][]string{{}, {"a"}, {"a", "b"}},
		ParamListsNested: [][]string{{"b"}},
		MaxXArgs:         2,
		Probes:           [][]func() b6.Expression{{intProbe(5), intProbe(6), intProbe(7), intProbe(8), intProbe(9), intProbe(3)}},
	}).finish()
}
