package vmkit

import (
	"diagonal.works/b6"
	"diagonal.works/b6/api/functions"
)

// QueryLib is the C22 library of query-building calls: the repository's own
// and / or / typed / keyed / tagged (the names api.Simplify rewrites), with
// lambdas and the repository's call to produce non-literal arguments.

var featureTypeNames = map[string]bool{"point": true, "path": true, "area": true, "relation": true, "collection": true, "expression": true}

func refKeyed(it *Interp, a []Val) (Val, error) {
	return &QueryV{Q: qnode{Op: "keyed", A: string(a[0].(StrV))}}, nil
}
func refTagged(it *Interp, a []Val) (Val, error) {
	return &QueryV{Q: qnode{Op: "tagged", A: string(a[0].(StrV)), B: string(a[1].(StrV))}}, nil
}
func refTyped(it *Interp, a []Val) (Val, error) {
	t := string(a[0].(StrV))
	if !featureTypeNames[t] {
		t = "invalid"
	}
	return &QueryV{Q: qnode{Op: "typed", A: t, Kids: []qnode{a[1].(*QueryV).Q}}}, nil
}
func refAnd(it *Interp, a []Val) (Val, error) {
	return &QueryV{Q: flattenQ("and", []qnode{a[0].(*QueryV).Q, a[1].(*QueryV).Q})}, nil
}
func refOr(it *Interp, a []Val) (Val, error) {
	return &QueryV{Q: flattenQ("or", []qnode{a[0].(*QueryV).Q, a[1].(*QueryV).Q})}, nil
}

func strLit(s string) Lit {
	return Lit{Kind: KStr, Label: s, Expr: func() b6.Expression { return b6.NewStringExpression(s) }}
}

func queryLit(label string, q func() b6.Query) Lit {
	return Lit{Kind: KQuery, Label: label, Expr: func() b6.Expression { return b6.NewQueryExpression(q()) }}
}

func strProbe(s string) func() b6.Expression {
	return func() b6.Expression { return b6.NewStringExpression(s) }
}

func keyProbe(k string) func() b6.Expression {
	return func() b6.Expression { return b6.NewQueryExpression(b6.Keyed{Key: k}) }
}

func QueryLib() *Lib {
	real := functions.Functions()
	q1 := func() b6.Query { return b6.Keyed{Key: "#j"} }
	// a literal with an or directly inside an or (api.simplifyQuery flattens it)
	q2 := func() b6.Query {
		return b6.Union{b6.Keyed{Key: "#j"}, b6.Union{b6.Tagged{Key: "#k", Value: b6.NewStringExpression("v")}, b6.Keyed{Key: "#l"}}}
	}
	return (&Lib{
		Name: "query",
		Globals: []*Global{
			{Name: "keyed", Kinds: []Kind{KStr}, Types: []PType{TString}, Result: KQuery, Impl: real["keyed"], Ref: refKeyed},
			{Name: "tagged", Kinds: []Kind{KStr, KStr}, Types: []PType{TString, TString}, Result: KQuery, Impl: real["tagged"], Ref: refTagged},
			{Name: "typed", Kinds: []Kind{KStr, KQuery}, Types: []PType{TString, TQuery}, Result: KQuery, Impl: real["typed"], Ref: refTyped},
			{Name: "and", Kinds: []Kind{KQuery, KQuery}, Types: []PType{TQuery, TQuery}, Result: KQuery, Impl: real["and"], Ref: refAnd},
			{Name: "or", Kinds: []Kind{KQuery, KQuery}, Types: []PType{TQuery, TQuery}, Result: KQuery, Impl: real["or"], Ref: refOr},
			globalCall(),
		},
		Lits:             []Lit{strLit("#k"), strLit("point"), queryLit("[#j]", q1), queryLit("[or j [or k=v l]]", q2)},
		ParamLists:       [][]string{{}, {"a"}, {"a", "b"}},
		ParamListsNested: [][]string{{"b"}},
		MaxXArgs:         2,
		Probes: [][]func() b6.Expression{
			{strProbe("#p"), strProbe("q"), strProbe("r"), strProbe("#s"), strProbe("t"), strProbe("u")},
			{keyProbe("#x"), keyProbe("#y"), keyProbe("#z"), keyProbe("#u"), keyProbe("#v"), keyProbe("#w")},
		},
	}).finish()
}

func xstr(s string) b6.Expression { return b6.NewStringExpression(s) }
func xq(q b6.Query) b6.Expression { return b6.NewQueryExpression(q) }

// QueryExtras are nested query-building programs beyond the node bound.
func QueryExtras() []Extra {
	k := func(s string) b6.Expression { return xg("keyed", xstr(s)) }
	return []Extra{
		{Name: "and-of-keyed", E: func() b6.Expression { return xg("and", k("#a"), k("#b")) }},
		{Name: "nested-and", E: func() b6.Expression { return xg("and", xg("and", k("#a"), k("#b")), xg("and", k("#c"), k("#d"))) }},
		{Name: "or-of-and", E: func() b6.Expression {
			return xg("or", xg("and", k("#a"), xg("tagged", xstr("#b"), xstr("v"))), xg("typed", xstr("point"), k("#c")))
		}},
		{Name: "typed-of-or-of-or", E: func() b6.Expression {
			return xg("typed", xstr("area"), xg("or", xg("or", k("#a"), k("#b")), k("#c")))
		}},
		{Name: "and-with-non-literal-key", E: func() b6.Expression {
			return xg("call", xl("a", xg("and", xg("keyed", xs("a")), k("#b"))), xstr("#a"))
		}},
		{Name: "lambda-over-nested-query", E: func() b6.Expression {
			return xg("call", xl("q", xg("and", xs("q"), xg("or", k("#a"), k("#b")))), k("#c"))
		}},
		{Name: "lambda-query-used-twice", E: func() b6.Expression {
			return xg("call", xl("q", xg("and", xs("q"), xs("q"))), k("#c"))
		}},
		{Name: "lambda-tagged-swapped", E: func() b6.Expression {
			return xg("call", xl("a b", xg("tagged", xs("b"), xs("a"))), xstr("v"), xstr("#k"))
		}},
		{Name: "pipelined-typed", E: func() b6.Expression {
			e := xc(xg("typed", xstr("point")), k("#a"))
			c := e.AnyExpression.(b6.CallExpression)
			c.Pipelined = true
			e.AnyExpression = c
			return e
		}},
		{Name: "and-literal-with-built", E: func() b6.Expression {
			return xg("and", xq(b6.Intersection{b6.Keyed{Key: "#x"}, b6.Keyed{Key: "#y"}}), xg("and", k("#a"), k("#b")))
		}},
	}
}
