package vmkit

import (
	"fmt"
	"regexp"
	"runtime"
	"strings"

	"diagonal.works/b6"
	"diagonal.works/b6/api"
	"verif/kit"
)

// Outcome of evaluating one tree on one side.
type Outcome struct {
	Panic    string // panic class ("" = none)
	PanicMsg string
	Err      string // error text ("" = none)
	Val      string // normal form of the value
	IsFn     bool
	Arity    int // reference side only: arity of a function result
	ErrCat   string
}

func (o Outcome) Kind() string {
	switch {
	case o.Panic != "":
		return "panic"
	case o.Err != "":
		return "error"
	case o.IsFn:
		return "fn"
	}
	return "value"
}

func (o Outcome) String() string {
	switch {
	case o.Panic != "":
		return "PANIC " + o.Panic
	case o.Err != "":
		return "error(" + o.Err + ")"
	}
	return o.Val
}

// Agree implements "same value, or error on both sides" (a panic never agrees).
func Agree(a, b Outcome) bool {
	if a.Panic != "" || b.Panic != "" {
		return false
	}
	if (a.Err != "") != (b.Err != "") {
		return false
	}
	if a.Err != "" {
		return true
	}
	return a.Val == b.Val
}

// NormVM renders a VM result in the normal form of Show.
func NormVM(v interface{}) string {
	switch x := v.(type) {
	case nil:
		return "<nil>"
	case int:
		return fmt.Sprint(x)
	case b6.IntNumber:
		return fmt.Sprint(int(x))
	case string:
		return fmt.Sprintf("%q", x)
	case api.Callable:
		return "<fn>"
	case api.Pair:
		return "(" + NormVM(x.First()) + " . " + NormVM(x.Second()) + ")"
	case b6.Query:
		return "Q" + canonQuery(x).String()
	}
	return fmt.Sprintf("?%T", v)
}

var panicKinds = []struct{ sub, name string }{
	{"interface conversion", "interface-conversion"},
	{"index out of range", "index-out-of-range"},
	{"slice bounds out of range", "slice-bounds"},
	{"OpLoad of invalid value", "OpLoad-invalid"},
	{"nil pointer", "nil-deref"},
	{"not in a call", "not-in-a-call"},
	{"reflect:", "reflect"},
}

// fastCatch runs f and, if it panics, returns the panic value and the first
// diagonal.works/b6 function below the panic (the same site kit.PanicSite
// extracts from a printed stack, but without formatting a stack trace).
func fastCatch(f func()) (site string, first string, panicked bool) {
	defer func() {
		if e := recover(); e != nil {
			panicked = true
			first = fmt.Sprint(e)
			var pcs [96]uintptr
			n := runtime.Callers(2, pcs[:])
			frames := runtime.CallersFrames(pcs[:n])
			seenPanic := false
			site = "outside-b6"
			for {
				fr, more := frames.Next()
				if fr.Function == "runtime.gopanic" {
					seenPanic = true
				} else if seenPanic && strings.HasPrefix(fr.Function, "diagonal.works/b6") {
					site = strings.TrimPrefix(fr.Function, "diagonal.works/")
					break
				}
				if !more {
					break
				}
			}
		}
	}()
	f()
	return
}

// RunVM evaluates e with the real VM (api.Evaluate) in a fresh context.
func (l *Lib) RunVM(e b6.Expression) Outcome {
	var o Outcome
	var v interface{}
	var err error
	site, first, panicked := fastCatch(func() {
		v, err = api.Evaluate(e, l.NewContext())
	})
	if panicked {
		kind := "other"
		for _, pk := range panicKinds {
			if strings.Contains(first, pk.sub) {
				kind = pk.name
				break
			}
		}
		o.Panic = "panic@" + site + ":" + kind
		o.PanicMsg = "panic: " + first
		return o
	}
	if err != nil {
		o.Err = err.Error()
		if o.Err == "" {
			o.Err = "(empty error)"
		}
		o.ErrCat = NormErr(o.Err)
		return o
	}
	o.Val = NormVM(v)
	_, o.IsFn = v.(api.Callable)
	return o
}

// PanicTrace re-runs a panicking evaluation under kit.Catch to obtain the
// printed stack (used once per violation class and case).
func (l *Lib) PanicTrace(e b6.Expression) string {
	_, msg := kit.Catch(func() { api.Evaluate(e, l.NewContext()) })
	return msg
}

// RunRef evaluates e with the reference interpreter.
func (l *Lib) RunRef(e b6.Expression) (Outcome, Events) {
	it := NewInterp(l)
	v, err := it.Eval(e)
	var o Outcome
	if err != nil {
		o.Err = err.Error()
		if re, ok := err.(*RefError); ok {
			o.ErrCat = re.Cat
		}
		return o, it.Ev
	}
	o.Val = Show(v)
	if f, ok := v.(FnV); ok {
		o.IsFn = true
		o.Arity = f.fnArity()
		if p, ok := f.(*Partial); ok && isVariadicBase(p) {
			o.Arity = -1
		}
	}
	return o, it.Ev
}

var reNum = regexp.MustCompile(`[0-9]+`)
var reQuoted = regexp.MustCompile(`"[^"]*"`)

// NormErr maps a VM error message onto a small set of classes: the text from
// the last known key phrase on, with numbers and quoted strings blanked.
func NormErr(s string) string {
	best := -1
	for _, k := range []string{"expected ", "can't ", "Can't ", "undefined symbol", "fail: ", "Don't know"} {
		if i := strings.LastIndex(s, k); i > best {
			best = i
		}
	}
	if best >= 0 {
		s = s[best:]
	}
	if strings.HasPrefix(s, "can't make literal from") {
		return "can't make literal from T"
	}
	s = reQuoted.ReplaceAllString(s, `"_"`)
	s = reNum.ReplaceAllString(s, "N")
	if len(s) > 70 {
		s = s[:70]
	}
	return s
}

// Probe wraps program e as `call e x1..xk` using probe arguments from set s;
// probes at different depths use different values (so that, e.g., an inner
// and an outer parameter of the same name receive different arguments).
func (l *Lib) Probe(e b6.Expression, k int, set int, depth int) b6.Expression {
	args := []b6.Expression{e}
	ps := l.Probes[set]
	for i := 0; i < k; i++ {
		args = append(args, ps[(3*depth+i)%len(ps)]())
	}
	return b6.NewCallExpression(b6.NewSymbolExpression("call"), args)
}

// Restamp gives every node of e a fresh unique stamp (preorder) in Begin/End.
func Restamp(e b6.Expression) b6.Expression {
	id := 0
	var rec func(e b6.Expression) b6.Expression
	rec = func(e b6.Expression) b6.Expression {
		id++
		e.Begin, e.End = id, id
		switch x := e.AnyExpression.(type) {
		case b6.LambdaExpression:
			x.Expression = rec(x.Expression)
			e.AnyExpression = x
		case b6.CallExpression:
			x.Function = rec(x.Function)
			args := make([]b6.Expression, len(x.Args))
			for i, a := range x.Args {
				args[i] = rec(a)
			}
			x.Args = args
			e.AnyExpression = x
		}
		return e
	}
	return rec(e)
}

// DeepCopy copies the call/lambda spine of an expression (leaves are immutable).
func DeepCopy(e b6.Expression) b6.Expression {
	switch x := e.AnyExpression.(type) {
	case b6.LambdaExpression:
		x.Args = append([]string{}, x.Args...)
		x.Expression = DeepCopy(x.Expression)
		e.AnyExpression = x
	case b6.CallExpression:
		x.Function = DeepCopy(x.Function)
		args := make([]b6.Expression, len(x.Args))
		for i, a := range x.Args {
			args[i] = DeepCopy(a)
		}
		x.Args = args
		e.AnyExpression = x
	}
	return e
}
