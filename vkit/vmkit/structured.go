package vmkit

// The STRUCTURED program family of C21: programs that are too large for the
// exhaustive-by-size enumeration (enum.go) but combine, in one program, the
// mechanisms of the calling convention that interact: the environment of
// enclosing lambdas, the route by which a callee is finally invoked (full call,
// partial application completed later, pipelines, completion by another
// higher-order function, through a variable) and what the lambdas handed to a
// higher-order callee read.
//
// A program is
//
//	context[ observer[ stages(callee, arguments) ] ]
//
// and the family is the full product of the menus below (restricted only by
// scoping: a shape that mentions x / z exists only in contexts binding them,
// and by arity: one-argument link forms exist only for one-argument stages).
//
//	context    where the application sits: top level, inside one lambda bound
//	           to x=5 (invoked by call, directly, as a pipeline, by the native
//	           apply, by a completed partial of the native apply-to, or as a
//	           completed partial of a 2-parameter lambda), inside two lambdas
//	           binding x=5 and z=7 (nested, one 2-parameter lambda, nested with
//	           the outer x shadowed, inner one run by a completed native partial)
//	observer   the application alone, or `pair <application> <x | (pair x z)>`:
//	           the enclosing parameters are read AFTER the application returned
//	callee     native first-order (pair, mix3), native higher-order
//	           (apply, apply-to, compose, both, call), first-order lambdas and
//	           higher-order lambdas (some reading the enclosing x themselves)
//	stages     an ordered composition n1+..+nm of the callee's k parameters:
//	           stage 1 applies the callee to its TRAILING n1 arguments (a partial
//	           application when m>1), stage 2 applies that result to the trailing
//	           n2 of the remaining ones, ... (k=3, m=3 is a partial of a partial);
//	           thorough tier: optionally preceded by the zero-argument
//	           application `callee()` (R4: binds nothing)
//	link       how each stage applies: `f args`, `call f args`, `a | f`; for later
//	           stages also through a variable `call {g -> call g args} p`, and for
//	           a final one-argument stage by handing the partial to another
//	           higher-order function: `apply p a`, `apply-to a p`,
//	           `p | {g -> apply-to a g}`; and for later stages inside a binder
//	           that did not exist when the partial application was made:
//	           `call {g -> call {z -> call g args} 8} p` (the arguments of that
//	           stage may then mention z even where the context does not bind it)
//	arguments  int/any parameters: a literal (distinct per position), x, z;
//	           function parameters: lambdas whose body uses only its own
//	           parameter, only the enclosing x, both, x and z and its own, z and
//	           its own, a
//	           parameter named x that shadows the outer one, a nested lambda
//	           reading all levels, or partial applications (of a native function
//	           / of a lambda) that capture x
//
// Programs are addressed by index, ordered by node count (stable, generation
// order within a size); sizes are computed arithmetically from the menus and
// re-checked against the built tree when a program is run.

import (
	"fmt"
	"strings"

	"diagonal.works/b6"
	"diagonal.works/b6/api"
)

// ---- library: IntLib plus two more native higher-order functions ----

func goApplyTo(c *api.Context, x interface{}, f fn1) (interface{}, error) { return f(c, x) }

func goBoth(c *api.Context, f fn1, g fn1, x interface{}) (api.Pair, error) {
	a, err := f(c, x)
	if err != nil {
		return nil, err
	}
	b, err := g(c, x)
	if err != nil {
		return nil, err
	}
	return api.AnyAnyPair{a, b}, nil
}

func refApplyTo(it *Interp, a []Val) (Val, error) { return it.Apply(a[1].(FnV), []Val{a[0]}) }
func refBoth(it *Interp, a []Val) (Val, error) {
	x, err := it.Apply(a[0].(FnV), []Val{a[2]})
	if err != nil {
		return nil, err
	}
	y, err := it.Apply(a[1].(FnV), []Val{a[2]})
	if err != nil {
		return nil, err
	}
	return &PairV{x, y}, nil
}

func globalApplyTo() *Global {
	return &Global{Name: "apply-to", Kinds: []Kind{KAny, KFn}, Types: []PType{TAny, TFn1}, Result: KAny, Impl: goApplyTo, Ref: refApplyTo}
}
func globalBoth() *Global {
	return &Global{Name: "both", Kinds: []Kind{KFn, KFn, KAny}, Types: []PType{TFn1, TFn1, TAny}, Result: KPair, Impl: goBoth, Ref: refBoth}
}

// HOLib is the library of the structured family: IntLib plus apply-to (value
// first, function LAST, so that `v | apply-to {..}` binds the function in the
// partial application) and the 3-parameter both (f g v -> pair (f v) (g v)).
func HOLib() *Lib {
	return (&Lib{
		Name: "int+hof",
		Globals: []*Global{
			globalAdd(), globalPair(), globalFirst(), globalSecond(), globalApply(),
			globalCompose(), globalCall(), globalMix3(), globalFail(), globalApplyTo(), globalBoth(),
		},
		Lits:             []Lit{intLit(1), intLit(2)},
		ParamLists:       defaultParamLists,
		ParamListsNested: defaultParamListsNested,
		MaxXArgs:         3,
		Probes:           [][]func() b6.Expression{{intProbe(5), intProbe(6), intProbe(7), intProbe(8), intProbe(9), intProbe(3)}},
	}).finish()
}

// ---- menus ----

func xpipe(f b6.Expression, a b6.Expression) b6.Expression {
	return b6.Expression{AnyExpression: b6.CallExpression{Function: f, Args: []b6.Expression{a}, Pipelined: true}}
}

// ExprSize is the number of nodes of an expression tree.
func ExprSize(e b6.Expression) int {
	switch x := e.AnyExpression.(type) {
	case b6.LambdaExpression:
		return 1 + ExprSize(x.Expression)
	case b6.CallExpression:
		n := 1 + ExprSize(x.Function)
		for _, a := range x.Args {
			n += ExprSize(a)
		}
		return n
	}
	return 1
}

type sContext struct {
	Name string
	Vars int // 0: none, 1: x, 2: x and z
	Wrap func(core b6.Expression) b6.Expression
	size int
}

func sContexts() []sContext {
	cs := []sContext{
		{Name: "top", Vars: 0, Wrap: func(c b6.Expression) b6.Expression { return c }},
		{Name: "x:call", Vars: 1, Wrap: func(c b6.Expression) b6.Expression { return xg("call", xl("x", c), xi(5)) }},
		{Name: "x:direct", Vars: 1, Wrap: func(c b6.Expression) b6.Expression { return xc(xl("x", c), xi(5)) }},
		{Name: "x:pipeline", Vars: 1, Wrap: func(c b6.Expression) b6.Expression { return xpipe(xl("x", c), xi(5)) }},
		{Name: "x:by-native-apply", Vars: 1, Wrap: func(c b6.Expression) b6.Expression { return xg("apply", xl("x", c), xi(5)) }},
		{Name: "x:by-completed-native-partial", Vars: 1, Wrap: func(c b6.Expression) b6.Expression {
			return xpipe(xg("apply-to", xl("x", c)), xi(5))
		}},
		{Name: "x:completed-partial-of-lambda", Vars: 1, Wrap: func(c b6.Expression) b6.Expression {
			return xc(xc(xl("x u", c), xi(9)), xi(5))
		}},
		{Name: "xz:nested-call", Vars: 2, Wrap: func(c b6.Expression) b6.Expression {
			return xg("call", xl("x", xg("call", xl("z", c), xi(7))), xi(5))
		}},
		{Name: "xz:nested-pipeline", Vars: 2, Wrap: func(c b6.Expression) b6.Expression {
			return xpipe(xl("x", xpipe(xl("z", c), xi(7))), xi(5))
		}},
		{Name: "xz:one-lambda", Vars: 2, Wrap: func(c b6.Expression) b6.Expression {
			return xg("call", xl("x z", c), xi(5), xi(7))
		}},
		{Name: "xz:nested-by-native-apply", Vars: 2, Wrap: func(c b6.Expression) b6.Expression {
			return xg("apply", xl("x", xg("apply", xl("z", c), xi(7))), xi(5))
		}},
		{Name: "xz:outer-x-shadowed", Vars: 2, Wrap: func(c b6.Expression) b6.Expression {
			return xg("call", xl("x", xg("call", xl("x z", c), xi(6), xi(7))), xi(5))
		}},
		{Name: "xz:inner-by-completed-native-partial", Vars: 2, Wrap: func(c b6.Expression) b6.Expression {
			return xg("call", xl("x", xpipe(xg("apply-to", xl("z", c)), xi(7))), xi(5))
		}},
	}
	for i := range cs {
		cs[i].size = ExprSize(cs[i].Wrap(xs("hole"))) - 1
	}
	return cs
}

// observers: 0 = none, 1 = `pair <core> <enclosing parameters>`
func sObserve(obs int, vars int, core b6.Expression) b6.Expression {
	if obs == 0 {
		return core
	}
	if vars == 1 {
		return xg("pair", core, xs("x"))
	}
	return xg("pair", core, xg("pair", xs("x"), xs("z")))
}

type sShape struct {
	Name  string
	Needs int  // enclosing parameters it mentions, as a mask: 1 = x, 2 = z
	Outer bool // a lambda body / bound argument reads a parameter of an enclosing lambda
	// Build makes the argument for parameter position pos (0-based); the
	// constant it contains is pos+1 so that positions are distinguishable.
	Build func(pos int) b6.Expression
	size  int
}

func sValShapes(thorough bool) []sShape {
	sh := []sShape{
		{Name: "lit", Build: func(p int) b6.Expression { return xi(p + 1) }},
		{Name: "x", Needs: 1, Build: func(p int) b6.Expression { return xs("x") }},
		{Name: "z", Needs: 2, Build: func(p int) b6.Expression { return xs("z") }},
	}
	if thorough {
		sh = append(sh, sShape{Name: "add-x-lit", Needs: 1, Build: func(p int) b6.Expression { return xg("add", xs("x"), xi(p+1)) }})
	}
	return sizeShapes(sh)
}

func sFnShapes(thorough bool) []sShape {
	sh := []sShape{
		{Name: "own", Build: func(p int) b6.Expression { return xl("y", xg("pair", xs("y"), xi(p+1))) }},
		{Name: "outer", Needs: 1, Outer: true, Build: func(p int) b6.Expression { return xl("y", xg("pair", xs("x"), xi(p+1))) }},
		{Name: "both", Needs: 1, Outer: true, Build: func(p int) b6.Expression {
			return xl("y", xg("pair", xs("x"), xg("pair", xs("y"), xi(p+1))))
		}},
		{Name: "both-xz", Needs: 3, Outer: true, Build: func(p int) b6.Expression {
			return xl("y", xg("pair", xs("x"), xg("pair", xs("z"), xg("pair", xs("y"), xi(p+1)))))
		}},
		{Name: "outer-z", Needs: 2, Outer: true, Build: func(p int) b6.Expression {
			return xl("y", xg("pair", xs("z"), xg("pair", xs("y"), xi(p+1))))
		}},
		{Name: "shadows-x", Needs: 1, Build: func(p int) b6.Expression { return xl("x", xg("pair", xs("x"), xi(p+1))) }},
		{Name: "nested-lambda", Needs: 1, Outer: true, Build: func(p int) b6.Expression {
			return xl("y", xg("call", xl("w", xg("pair", xs("x"), xg("pair", xs("y"), xs("w")))), xi(p+1)))
		}},
		{Name: "partial-of-native-binding-x", Needs: 1, Build: func(p int) b6.Expression { return xg("add", xs("x")) }},
		{Name: "partial-of-lambda-reading-x", Needs: 1, Outer: true, Build: func(p int) b6.Expression {
			return xc(xl("p y", xg("pair", xs("x"), xg("pair", xs("p"), xs("y")))), xi(p+1))
		}},
	}
	if thorough {
		sh = append(sh,
			sShape{Name: "calls-native-hof-with-lambda-reading-x", Needs: 1, Outer: true, Build: func(p int) b6.Expression {
				return xl("y", xg("apply", xl("w", xg("pair", xs("x"), xs("w"))), xs("y")))
			}},
			sShape{Name: "completes-native-partial-inside", Needs: 1, Outer: true, Build: func(p int) b6.Expression {
				return xl("y", xpipe(xg("apply-to", xl("w", xg("pair", xs("x"), xg("pair", xs("y"), xs("w"))))), xi(p+1)))
			}},
			sShape{Name: "partial-of-native-binding-lit", Build: func(p int) b6.Expression { return xg("add", xi(p+7)) }},
		)
	}
	return sizeShapes(sh)
}

func sizeShapes(sh []sShape) []sShape {
	for i := range sh {
		sh[i].size = ExprSize(sh[i].Build(0))
	}
	return sh
}

type sCallee struct {
	Name      string
	Class     string // native-first-order | native-higher-order | lambda-first-order | lambda-higher-order
	Params    string // one letter per parameter: I int, A any, F function of one argument
	Needs     int
	Global    bool
	NoPartial bool // variadic: only complete applications (U2)
	Build     func() b6.Expression
	size      int
}

func sCallees() []sCallee {
	sym := func(n string) func() b6.Expression { return func() b6.Expression { return xs(n) } }
	cs := []sCallee{
		{Name: "pair", Class: "native-first-order", Params: "AA", Global: true, Build: sym("pair")},
		{Name: "mix3", Class: "native-first-order", Params: "III", Global: true, Build: sym("mix3")},
		{Name: "apply", Class: "native-higher-order", Params: "FA", Global: true, Build: sym("apply")},
		{Name: "apply-to", Class: "native-higher-order", Params: "AF", Global: true, Build: sym("apply-to")},
		{Name: "compose", Class: "native-higher-order", Params: "FF", Global: true, Build: sym("compose")},
		{Name: "both", Class: "native-higher-order", Params: "FFA", Global: true, Build: sym("both")},
		{Name: "call", Class: "native-higher-order", Params: "FA", Global: true, NoPartial: true, Build: sym("call")},
		{Name: "{p q -> pair p q}", Class: "lambda-first-order", Params: "AA", Build: func() b6.Expression {
			return xl("p q", xg("pair", xs("p"), xs("q")))
		}},
		{Name: "{p q r -> mix3 p q r}", Class: "lambda-first-order", Params: "III", Build: func() b6.Expression {
			return xl("p q r", xg("mix3", xs("p"), xs("q"), xs("r")))
		}},
		{Name: "{p q -> mix3 x p q}", Class: "lambda-first-order", Params: "II", Needs: 1, Build: func() b6.Expression {
			return xl("p q", xg("mix3", xs("x"), xs("p"), xs("q")))
		}},
		{Name: "{f v -> call f v}", Class: "lambda-higher-order", Params: "FA", Build: func() b6.Expression {
			return xl("f v", xg("call", xs("f"), xs("v")))
		}},
		{Name: "{v f -> apply-to v f}", Class: "lambda-higher-order", Params: "AF", Build: func() b6.Expression {
			return xl("v f", xg("apply-to", xs("v"), xs("f")))
		}},
		{Name: "{v f -> v | apply-to f}", Class: "lambda-higher-order", Params: "AF", Build: func() b6.Expression {
			return xl("v f", xpipe(xg("apply-to", xs("f")), xs("v")))
		}},
		{Name: "{f v -> call f (pair v x)}", Class: "lambda-higher-order", Params: "FA", Needs: 1, Build: func() b6.Expression {
			return xl("f v", xg("call", xs("f"), xg("pair", xs("v"), xs("x"))))
		}},
	}
	for i := range cs {
		cs[i].size = ExprSize(cs[i].Build())
	}
	return cs
}

// link forms
const (
	lDirect  = iota // f args            (symbol / lambda / call in function position)
	lCall           // call f args
	lPipe           // a | f             (one argument)
	lVar            // call {g -> call g args} p
	lApply          // apply p a         (final stage, one argument)
	lApplyTo        // apply-to a p      (final stage, one argument)
	lVarHof         // p | {g -> apply-to a g}   (final stage, one argument)
	lLate           // call {g -> call {z -> call g args} 8} p   (z is bound AFTER p was made; args may read it)
	numLinks
)

var linkNames = [numLinks]string{"direct", "via-call", "pipeline", "through-variable", "passed-to-apply", "passed-to-apply-to", "through-variable-to-apply-to", "through-variable-inside-later-binder-of-z"}

// nodes a link adds beyond the function expression and the arguments
var linkSize = [numLinks]int{1, 2, 1, 6, 2, 2, 5, 10}

func sLinks(first bool, nargs int, final bool) []uint8 {
	ls := []uint8{lDirect, lCall}
	if nargs == 1 {
		ls = append(ls, lPipe)
	}
	if !first {
		ls = append(ls, lVar, lLate)
		if nargs == 1 && final {
			ls = append(ls, lApply, lApplyTo, lVarHof)
		}
	}
	return ls
}

func sLink(kind uint8, f b6.Expression, args []b6.Expression) b6.Expression {
	switch kind {
	case lDirect:
		return xc(f, args...)
	case lCall:
		return xg("call", append([]b6.Expression{f}, args...)...)
	case lPipe:
		return xpipe(f, args[0])
	case lVar:
		return xg("call", xl("g", xg("call", append([]b6.Expression{xs("g")}, args...)...)), f)
	case lApply:
		return xg("apply", f, args[0])
	case lApplyTo:
		return xg("apply-to", args[0], f)
	case lVarHof:
		return xpipe(xl("g", xg("apply-to", args[0], xs("g"))), f)
	case lLate:
		return xg("call", xl("g", xg("call", xl("z", xg("call", append([]b6.Expression{xs("g")}, args...)...)), xi(8))), f)
	}
	panic("vmkit: link")
}

// compositions of k, in order of the number of parts
var sStagings = map[int][][]int{
	2: {{2}, {1, 1}},
	3: {{3}, {1, 2}, {2, 1}, {1, 1, 1}},
}

// SDesc addresses one program of the structured family.
type SDesc struct {
	Ctx, Obs, Callee, Staging, Zero uint8
	Links                           [3]uint8
	Args                            [3]uint8 // shape per parameter (value or function menu, by parameter type)
	Size                            uint16
}

type Structured struct {
	Lib      *Lib
	Thorough bool
	ctxs     []sContext
	callees  []sCallee
	vals     []sShape
	fns      []sShape
	descs    []SDesc
	BySize   map[int]int64
}

func (s *Structured) Len() int64 { return int64(len(s.descs)) }

func (s *Structured) shape(c *sCallee, pos int, idx uint8) *sShape {
	if c.Params[pos] == 'F' {
		return &s.fns[idx]
	}
	return &s.vals[idx]
}

// NewStructured enumerates the family. Quick tier: all function parameters of
// one callee receive the same function-argument shape; thorough tier: shapes
// vary independently per parameter, with the larger shape menus and the
// optional leading zero-argument application.
func NewStructured(l *Lib, thorough bool) *Structured {
	s := &Structured{Lib: l, Thorough: thorough, ctxs: sContexts(), callees: sCallees(),
		vals: sValShapes(thorough), fns: sFnShapes(thorough), BySize: map[int]int64{}}
	// two passes over the same deterministic generation: count per size, then
	// place every program at its position in the stable order by size
	var start []int
	gen := func(emit func(d SDesc)) {
		for ci := range s.ctxs {
			ctx := &s.ctxs[ci]
			for obs := 0; obs < 2; obs++ {
				if obs == 1 && ctx.Vars == 0 {
					continue
				}
				obsSize := 0
				if obs == 1 {
					obsSize = ExprSize(sObserve(1, ctx.Vars, xs("hole"))) - 1
				}
				for fi := range s.callees {
					callee := &s.callees[fi]
					if callee.Needs&^ctxMask[ctx.Vars] != 0 {
						continue
					}
					k := len(callee.Params)
					zeros := 1
					if thorough && !callee.NoPartial {
						zeros = 2
					}
					for zero := 0; zero < zeros; zero++ {
						for si, st := range sStagings[k] {
							if callee.NoPartial && len(st) > 1 {
								continue
							}
							base := SDesc{Ctx: uint8(ci), Obs: uint8(obs), Callee: uint8(fi), Staging: uint8(si), Zero: uint8(zero)}
							fixed := ctx.size + obsSize + callee.size + zero
							s.linkCombos(base, st, 0, zero == 1, fixed, func(d SDesc, size int) {
								s.argCombos(d, callee, s.paramMasks(d, st, ctx.Vars), 0, -1, size, func(d SDesc, size int) {
									d.Size = uint16(size)
									emit(d)
								})
							})
						}
					}
				}
			}
		}
	}
	total := 0
	gen(func(d SDesc) {
		s.BySize[int(d.Size)]++
		total++
	})
	maxSize := 0
	for sz := range s.BySize {
		if sz > maxSize {
			maxSize = sz
		}
	}
	start = make([]int, maxSize+2)
	for sz, n := range s.BySize {
		start[sz+1] = int(n)
	}
	for i := 1; i < len(start); i++ {
		start[i] += start[i-1]
	}
	s.descs = make([]SDesc, total)
	gen(func(d SDesc) {
		s.descs[start[int(d.Size)]] = d
		start[int(d.Size)]++
	})
	return s
}

func (s *Structured) linkCombos(d SDesc, st []int, stage int, afterZero bool, size int, emit func(SDesc, int)) {
	if stage == len(st) {
		emit(d, size)
		return
	}
	first := stage == 0 && !afterZero
	for _, lk := range sLinks(first, st[stage], stage == len(st)-1) {
		d.Links[stage] = lk
		s.linkCombos(d, st, stage+1, afterZero, size+linkSize[lk], emit)
	}
}

// enclosing parameters in scope, as a mask (1 = x, 2 = z), by sContext.Vars
var ctxMask = [3]int{0, 1, 3}

// stageOf maps every parameter position to the stage that supplies it.
func stageOf(st []int) [3]int {
	var out [3]int
	k := 0
	for _, n := range st {
		k += n
	}
	hi := k
	for stage, n := range st {
		for p := hi - n; p < hi; p++ {
			out[p] = stage
		}
		hi -= n
	}
	return out
}

// paramMasks gives, per parameter, the enclosing parameters its argument may
// mention: those of the context, plus z when its stage is linked inside the
// later binder of z.
func (s *Structured) paramMasks(d SDesc, st []int, vars int) [3]int {
	var m [3]int
	so := stageOf(st)
	for p := range m {
		m[p] = ctxMask[vars]
		if d.Links[so[p]] == lLate {
			m[p] |= 2
		}
	}
	return m
}

// argCombos chooses a shape per parameter; in the quick tier every function
// parameter after the first repeats the shape of the first (shared >= 0).
func (s *Structured) argCombos(d SDesc, c *sCallee, masks [3]int, pos int, shared int, size int, emit func(SDesc, int)) {
	if pos == len(c.Params) {
		emit(d, size)
		return
	}
	isFn := c.Params[pos] == 'F'
	menu := s.vals
	if isFn {
		menu = s.fns
	}
	for i := range menu {
		if menu[i].Needs&^masks[pos] != 0 {
			continue
		}
		if isFn && !s.Thorough && shared >= 0 && i != shared {
			continue
		}
		d.Args[pos] = uint8(i)
		sh := shared
		if isFn && sh < 0 {
			sh = i
		}
		s.argCombos(d, c, masks, pos+1, sh, size+menu[i].size, emit)
	}
}

func (s *Structured) Desc(i int64) SDesc { return s.descs[i] }

// Build constructs a fresh tree of program i.
func (s *Structured) Build(i int64) b6.Expression {
	d := s.descs[i]
	ctx := &s.ctxs[d.Ctx]
	callee := &s.callees[d.Callee]
	k := len(callee.Params)
	rem := make([]b6.Expression, k)
	for p := 0; p < k; p++ {
		rem[p] = s.shape(callee, p, d.Args[p]).Build(p)
	}
	e := callee.Build()
	if d.Zero == 1 {
		e = xc(e)
	}
	for stage, n := range sStagings[k][d.Staging] {
		args := rem[len(rem)-n:]
		rem = rem[:len(rem)-n]
		e = sLink(d.Links[stage], e, args)
	}
	return ctx.Wrap(sObserve(int(d.Obs), ctx.Vars, e))
}

func (s *Structured) stagingName(d SDesc) string {
	st := sStagings[len(s.callees[d.Callee].Params)][d.Staging]
	parts := make([]string, 0, len(st)+1)
	if d.Zero == 1 {
		parts = append(parts, "0")
	}
	for _, n := range st {
		parts = append(parts, fmt.Sprint(n))
	}
	return strings.Join(parts, "+")
}

// Describe names the menu choices of program i.
func (s *Structured) Describe(i int64) string {
	d := s.descs[i]
	callee := &s.callees[d.Callee]
	st := sStagings[len(callee.Params)][d.Staging]
	links := make([]string, len(st))
	for j := range st {
		links[j] = linkNames[d.Links[j]]
	}
	args := make([]string, len(callee.Params))
	for p := range args {
		args[p] = s.shape(callee, p, d.Args[p]).Name
	}
	obs := "none"
	if d.Obs == 1 {
		obs = "reads-enclosing-parameters-afterwards"
	}
	return fmt.Sprintf("context=%s observer=%s callee=%s stages=%s links=%s args=%s", s.ctxs[d.Ctx].Name, obs, callee.Name,
		s.stagingName(d), strings.Join(links, ","), strings.Join(args, ","))
}

// SFeatures are the coverage counters of one structured program.
type SFeatures struct {
	Context, CalleeClass, Stages string
	Links                        []string
	FnShapes                     []string
	// Completed partial application of a native higher-order function that
	// runs a lambda (or partial) reading a parameter of an enclosing lambda.
	NativeHofPartialOuter bool
	// the same for a higher-order lambda callee
	LambdaHofPartialOuter bool
	PartialOfPartial      bool
	// A function argument supplied by a stage linked inside the later binder
	// of z reads that z: the parameter was bound after the partial application
	// it completes (or extends) was made.
	LateBoundRead bool
}

func (s *Structured) Features(i int64) SFeatures {
	d := s.descs[i]
	callee := &s.callees[d.Callee]
	st := sStagings[len(callee.Params)][d.Staging]
	f := SFeatures{Context: s.ctxs[d.Ctx].Name, CalleeClass: callee.Class, Stages: s.stagingName(d)}
	for j := range st {
		f.Links = append(f.Links, linkNames[d.Links[j]])
	}
	outer := false
	so := stageOf(st)
	for p := range callee.Params {
		if callee.Params[p] == 'F' {
			sh := s.shape(callee, p, d.Args[p])
			f.FnShapes = append(f.FnShapes, sh.Name)
			outer = outer || sh.Outer
			if d.Links[so[p]] == lLate && sh.Needs&2 != 0 {
				f.LateBoundRead = true
			}
		}
	}
	f.PartialOfPartial = len(st) > 2
	if len(st) > 1 && outer {
		f.NativeHofPartialOuter = callee.Class == "native-higher-order"
		f.LambdaHofPartialOuter = callee.Class == "lambda-higher-order"
	}
	return f
}

// BoundString describes the enumerated menus for the kit's bound string.
func (s *Structured) BoundString() string {
	names := func(sh []sShape) string {
		n := make([]string, len(sh))
		for i := range sh {
			n[i] = sh[i].Name
		}
		return strings.Join(n, ", ")
	}
	cn := make([]string, len(s.ctxs))
	for i := range s.ctxs {
		cn[i] = s.ctxs[i].Name
	}
	fn := make([]string, len(s.callees))
	for i := range s.callees {
		fn[i] = s.callees[i].Name
	}
	minSize, maxSize := 1<<30, 0
	for sz := range s.BySize {
		if sz < minSize {
			minSize = sz
		}
		if sz > maxSize {
			maxSize = sz
		}
	}
	mode := "all function parameters of a callee share one function-argument shape; no zero-argument stage"
	if s.Thorough {
		mode = "function-argument shapes vary independently per parameter; every staging also preceded by the zero-argument application callee()"
	}
	return fmt.Sprintf("all %d structured programs (%d..%d nodes) = %d contexts {%s} x observer {none, pair <core> <enclosing parameters>} x %d callees {%s} x every ordered composition of the callee's 2 or 3 parameters into stages (trailing arguments first; 1+1+1 = partial of a partial) x every link form per stage {%s} x value arguments {%s} x function arguments {%s}; %s",
		s.Len(), minSize, maxSize, len(s.ctxs), strings.Join(cn, ", "), len(s.callees), strings.Join(fn, "; "),
		strings.Join(linkNames[:], ", "), names(s.vals), names(s.fns), mode)
}
