package vmkit

import (
	"fmt"
	"hash/fnv"
	"sort"
	"testing"
)

// Self-test of the structured family: no duplicate programs, the arithmetic
// size equals the size of the built tree, sizes are non-decreasing.
func TestStructuredFamily(t *testing.T) {
	l := HOLib()
	for _, thorough := range []bool{false, true} {
		if thorough && testing.Short() {
			continue
		}
		s := NewStructured(l, thorough)
		seen := map[uint64]int64{}
		last := 0
		for i := int64(0); i < s.Len(); i++ {
			e := s.Build(i)
			if sz := ExprSize(e); sz != int(s.Desc(i).Size) {
				t.Fatalf("%d %s: size %d, formula %d", i, Print(e), sz, s.Desc(i).Size)
			}
			if int(s.Desc(i).Size) < last {
				t.Fatalf("%d: not ordered by size", i)
			}
			last = int(s.Desc(i).Size)
			p := Print(e)
			h := fnv.New64a()
			h.Write([]byte(p))
			if j, ok := seen[h.Sum64()]; ok {
				t.Fatalf("duplicate program %s: %s / %s", p, s.Describe(j), s.Describe(i))
			}
			seen[h.Sum64()] = i
		}
		var sizes []int
		for sz := range s.BySize {
			sizes = append(sizes, sz)
		}
		sort.Ints(sizes)
		fmt.Printf("thorough=%v programs=%d\n", thorough, s.Len())
		for _, sz := range sizes {
			fmt.Printf("  size %d: %d\n", sz, s.BySize[sz])
		}
		if testing.Verbose() {
			for i := int64(0); i < s.Len(); i += s.Len() / 40 {
				fmt.Println(i, Print(s.Build(i)), "   ##", s.Describe(i))
			}
		}
	}
}
