package vmkit

import (
	"fmt"
	"testing"

	"diagonal.works/b6"
)

// Self-tests of the harness (not part of any check).

func TestCountsAndUnrank(t *testing.T) {
	l := IntLib()
	p := NewPrograms(l, 1, 5)
	seen := map[string]bool{}
	for i := int64(0); i < p.Len(); i++ {
		term := p.At(i)
		s := l.String(term)
		if seen[s] {
			t.Fatalf("duplicate program %q at %d", s, i)
		}
		seen[s] = true
		if i < p.cum[3] && testing.Verbose() && i%7 == 0 {
			fmt.Println(i, term.Size(), s)
		}
	}
	for n := 1; n <= 8; n++ {
		fmt.Println("size", n, NewPrograms(l, n, n).Len(), NewPrograms(CoreLib(), n, n).Len(), NewPrograms(QueryLib(), n, n).Len())
	}
}

func TestSizes(t *testing.T) {
	l := IntLib()
	p := NewPrograms(l, 1, 5)
	for i := int64(0); i < p.Len(); i += 13 {
		term := p.At(i)
		want := 1
		for want < 5 && i >= p.cum[want] {
			want++
		}
		if term.Size() != want {
			t.Fatalf("%s: size %d want %d", l.String(term), term.Size(), want)
		}
	}
}

func TestExtras(t *testing.T) {
	l := IntLib()
	for _, x := range Extras() {
		e := x.E()
		ref, ev := l.RunRef(e)
		vm := l.RunVM(x.E())
		s := Print(e)
		if len(s) > 100 {
			s = s[:100] + "..."
		}
		fmt.Printf("%-45s ref=%-28s vm=%-60s esc=%v  %s\n", x.Name, ref, vm, ev.Escaped, s)
	}
}

func BenchmarkCheck21(b *testing.B) {
	l := IntLib()
	p := NewPrograms(l, 6, 6)
	var r kitResult
	_ = r
	for i := 0; i < b.N; i++ {
		term := p.At(int64(i*7919) % p.Len())
		res := newRes()
		l.Check21(NewTally(res), func(o BuildOpts) b6.Expression { return l.Build(term, o) }, term.Features().OneArgCalls > 0, false)
	}
}

// TestListUnsettled prints the disagreements classified U1/U2 (run with -v).
func TestListUnsettled(t *testing.T) {
	if !testing.Verbose() {
		t.Skip()
	}
	l := IntLib()
	p := NewPrograms(l, 1, 6)
	n := 0
	for i := int64(0); i < p.Len(); i++ {
		term := p.At(i)
		e := l.Build(term, BuildOpts{})
		ref, ev := l.RunRef(e)
		check := func(e b6.Expression, ref Outcome, ev Events) {
			if !(ev.Escaped || ev.VariadicPartial) {
				return
			}
			vm := l.RunVM(e)
			if !Agree(ref, vm) && n < 60 {
				n++
				fmt.Printf("U1=%v U2=%v  %s\n    ref=%s vm=%s\n", ev.Escaped, ev.VariadicPartial, Print(e), ref, vm)
			}
		}
		check(e, ref, ev)
		if ref.IsFn && ref.Arity >= 0 && ref.Arity <= 3 {
			pe := l.Probe(l.Build(term, BuildOpts{}), ref.Arity, 0, 0)
			pref, pev := l.RunRef(pe)
			check(pe, pref, pev)
			if pref.IsFn && pref.Arity >= 0 && pref.Arity <= 3 {
				pe2 := l.Probe(l.Probe(l.Build(term, BuildOpts{}), ref.Arity, 0, 0), pref.Arity, 0, 1)
				pref2, pev2 := l.RunRef(pe2)
				check(pe2, pref2, pev2)
			}
		}
	}
}
