package vmkit

import (
	"fmt"
	"testing"

	"diagonal.works/b6"
	"diagonal.works/b6/api"
	"diagonal.works/b6/api/functions"
)

func TestTmpShell(t *testing.T) {
	for _, src := range []string{
		`(call {f v -> call f v} 3) | {g -> 8 | {z -> call g {y -> add-ints z y}}}`,
		`8 | {z -> call (call {f v -> call f v} 3) {y -> add-ints z y}}`,
		`(call {f v -> call f v} 3) | {g -> 8 | {z -> call g (add-ints z)}}`,
	} {
		e, err := api.ParseExpression(src)
		if err != nil {
			fmt.Println(src, "PARSE", err)
			continue
		}
		v, err := api.Evaluate(e, functions.NewContext(b6.EmptyWorld{}))
		fmt.Printf("%s\n   => %v, %v\n", src, v, err)
	}
}
