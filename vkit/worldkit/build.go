package worldkit

import (
	"fmt"
	"io"
	"log"

	"diagonal.works/b6"
	"diagonal.works/b6/ingest"
	"diagonal.works/b6/ingest/compact"
)

func init() { log.SetOutput(io.Discard) }

// Basic builds the read-only in-memory world (invalid features dropped).
func Basic(s Spec, cores int) (b6.World, error) {
	return ingest.NewWorldFromSource(ingest.MemoryFeatureSource(s.Features()), &ingest.BuildOptions{Cores: cores})
}

// BasicStrict fails on invalid features.
func BasicStrict(s Spec, cores int) (b6.World, error) {
	return ingest.NewWorldFromSource(ingest.MemoryFeatureSource(s.Features()), &ingest.BuildOptions{Cores: cores, FailInvalidFeatures: true, FailClockwisePaths: true})
}

func kindOrder(k Kind) int { return int(k) }

// InDependencyOrder returns the spec sorted points, paths, areas, relations,
// collections (stable), so that AddFeature sees referenced features first.
func (s Spec) InDependencyOrder() Spec {
	out := make(Spec, 0, len(s))
	for k := KPoint; k <= KCollection; k++ {
		for _, f := range s {
			if f.Kind == k {
				out = append(out, f)
			}
		}
	}
	return out
}

// AddAll adds every feature in dependency order; returns the IDs rejected.
func AddAll(w ingest.MutableWorld, s Spec) map[b6.FeatureID]error {
	rejected := map[b6.FeatureID]error{}
	for _, f := range s.InDependencyOrder() {
		if err := w.AddFeature(f.Feature()); err != nil {
			rejected[f.ID] = err
		}
	}
	return rejected
}

func BasicMutable(s Spec) (*ingest.BasicMutableWorld, map[b6.FeatureID]error) {
	w := ingest.NewBasicMutableWorld()
	return w, AddAll(w, s)
}

func OverlayOn(base b6.World, s Spec) (*ingest.MutableOverlayWorld, map[b6.FeatureID]error) {
	w := ingest.NewMutableOverlayWorld(base)
	return w, AddAll(w, s)
}

// CompactData builds a compact index in memory.
func CompactData(s Spec, cores int) ([]byte, error) {
	return compact.BuildInMemory(ingest.MemoryFeatureSource(s.Features()), &compact.Options{Goroutines: cores, PointsScratchOutputType: compact.OutputTypeMemory})
}

func Compact(s Spec, cores int) (*compact.World, error) {
	data, err := CompactData(s, cores)
	if err != nil {
		return nil, fmt.Errorf("build: %w", err)
	}
	w := compact.NewWorld()
	if err := w.Merge(data); err != nil {
		return nil, fmt.Errorf("merge: %w", err)
	}
	return w, nil
}

// CompactMerged builds each part separately (parts after the first as overlay
// indices against the world so far when overlay is true) and merges them.
func CompactMerged(parts []Spec, cores int, overlay bool) (*compact.World, error) {
	w := compact.NewWorld()
	for i, p := range parts {
		var data []byte
		var err error
		o := &compact.Options{Goroutines: cores, PointsScratchOutputType: compact.OutputTypeMemory}
		if overlay && i > 0 {
			data, err = compact.BuildOverlayInMemory(ingest.MemoryFeatureSource(p.Features()), o, w)
		} else {
			data, err = compact.BuildInMemory(ingest.MemoryFeatureSource(p.Features()), o)
		}
		if err != nil {
			return nil, fmt.Errorf("build part %d: %w", i, err)
		}
		if err := w.Merge(data); err != nil {
			return nil, fmt.Errorf("merge part %d: %w", i, err)
		}
	}
	return w, nil
}
