package worldkit

import (
	"fmt"
	"sort"
	"strings"

	"diagonal.works/b6"
	"github.com/golang/geo/s2"
	"verif/kit"
)

// Dump is the canonical observable answer set of a world: section -> value.
type Dump map[string]string

type DumpOptions struct {
	IDs     []b6.FeatureID // universe (present and absent IDs)
	Queries []NamedQuery   // FindFeatures menu
	// Sections to skip (prefixes), e.g. "trav:".
	Skip []string
	// NoGeometry skips geometry accessors inside feat: sections.
	NoGeometry bool
	// NoFeatureRefs omits Feature.References() from feat: sections (compact
	// areas and relations do not implement it).
	NoFeatureRefs bool
}

type NamedQuery struct {
	Name  string
	Query b6.Query
}

func (o *DumpOptions) skipped(section string) bool {
	for _, s := range o.Skip {
		if strings.HasPrefix(section, s) {
			return true
		}
	}
	return false
}

func guard(f func() string) (out string) {
	cls, msg := kit.Catch(func() { out = f() })
	if cls != "" {
		first := msg
		if i := strings.IndexByte(first, '\n'); i > 0 {
			first = first[:i]
		}
		return "PANIC(" + cls + ": " + first + ")"
	}
	return out
}

// TagString renders a tag with its value kind.
func TagString(t b6.Tag) string {
	return t.Key + "=" + ExprString(t.Value)
}

func ExprString(e b6.Expression) string {
	switch v := e.AnyExpression.(type) {
	case nil:
		return "nil"
	case b6.StringExpression:
		return "s:" + string(v)
	case b6.PointExpression:
		return "pt:" + LLFromLatLng(s2.LatLng(v)).String()
	case b6.FeatureIDExpression:
		return "id:" + b6.FeatureID(v).String()
	case b6.Expressions:
		var parts []string
		for _, x := range v {
			parts = append(parts, ExprString(b6.Expression{AnyExpression: x}))
		}
		return "list[" + strings.Join(parts, " ") + "]"
	case b6.IntExpression:
		return fmt.Sprintf("i:%d", int(v))
	case b6.FloatExpression:
		return fmt.Sprintf("f:%v", float64(v))
	default:
		return fmt.Sprintf("%T:%s", v, v.String())
	}
}

// TagsString lists tags in API order. Geometry-bearing tags (point/path) are
// rendered like any other tag so value kinds are compared too.
func TagsString(tags b6.Tags) string {
	parts := make([]string, 0, len(tags))
	for _, t := range tags {
		parts = append(parts, TagString(t))
	}
	return "[" + strings.Join(parts, "; ") + "]"
}

func sortedTagsString(tags b6.Tags) string {
	parts := make([]string, 0, len(tags))
	for _, t := range tags {
		parts = append(parts, TagString(t))
	}
	sort.Strings(parts)
	return "[" + strings.Join(parts, "; ") + "]"
}

func polygonString(p *s2.Polygon) string {
	if p == nil {
		return "nilpoly"
	}
	var loops []string
	for i := 0; i < p.NumLoops(); i++ {
		l := p.Loop(i)
		var ps []string
		// canonical rotation: start at the smallest vertex, keep direction
		n := l.NumVertices()
		best := 0
		for j := 1; j < n; j++ {
			a, b := LLFromPoint(l.Vertex(j)), LLFromPoint(l.Vertex(best))
			if a.Lat < b.Lat || (a.Lat == b.Lat && a.Lng < b.Lng) {
				best = j
			}
		}
		for j := 0; j < n; j++ {
			ps = append(ps, LLFromPoint(l.Vertex((best+j)%n)).String())
		}
		h := ""
		if l.IsHole() {
			h = "hole"
		}
		loops = append(loops, h+"("+strings.Join(ps, " ")+")")
	}
	sort.Strings(loops)
	return "{" + strings.Join(loops, " ") + "}"
}

// FeatureString renders everything the API exposes about a feature.
func FeatureString(f b6.Feature, geometry bool, withRefs bool) string {
	if f == nil {
		return "nil"
	}
	var b strings.Builder
	fmt.Fprintf(&b, "id=%s tags=%s", f.FeatureID(), sortedTagsString(f.AllTags()))
	// Get() must agree with AllTags()
	for _, t := range f.AllTags() {
		g := f.Get(t.Key)
		if !g.IsValid() || TagString(g) != TagString(t) {
			fmt.Fprintf(&b, " GET-MISMATCH(%s: %s)", t.Key, TagString(g))
		}
	}
	if withRefs {
		var refs []string
		for _, r := range f.References() {
			refs = append(refs, r.Source().String())
		}
		fmt.Fprintf(&b, " refs=%v", refs)
	}
	if !geometry {
		return b.String()
	}
	switch ff := f.(type) {
	case b6.AreaFeature:
		fmt.Fprintf(&b, " area[%d]", ff.Len())
		for i := 0; i < ff.Len(); i++ {
			i := i
			b.WriteString(" poly=" + guard(func() string { return polygonString(ff.Polygon(i)) }))
			b.WriteString(" paths=" + guard(func() string {
				var ids []string
				for _, p := range ff.Feature(i) {
					if p == nil {
						ids = append(ids, "nil")
					} else {
						ids = append(ids, p.FeatureID().String())
					}
				}
				return fmt.Sprint(ids)
			}))
		}
	case b6.RelationFeature:
		fmt.Fprintf(&b, " rel[%d]", ff.Len())
		for i := 0; i < ff.Len(); i++ {
			m := ff.Member(i)
			fmt.Fprintf(&b, " (%s,%q)", m.ID, m.Role)
		}
	case b6.CollectionFeature:
		b.WriteString(" coll" + guard(func() string {
			var items []string
			it := ff.BeginUntyped()
			for {
				ok, err := it.Next()
				if err != nil {
					items = append(items, "err:"+err.Error())
					break
				}
				if !ok {
					break
				}
				items = append(items, fmt.Sprintf("%v=>%v", it.Key(), it.Value()))
			}
			n, ok := ff.Count()
			return fmt.Sprintf("%v count=%d,%v", items, n, ok)
		}))
	case b6.PhysicalFeature:
		switch ff.GeometryType() {
		case b6.GeometryTypePoint:
			b.WriteString(" point=" + guard(func() string { return LLFromPoint(ff.Point()).String() }))
		case b6.GeometryTypePath:
			n := ff.GeometryLen()
			fmt.Fprintf(&b, " path[%d]", n)
			for i := 0; i < n; i++ {
				i := i
				b.WriteString(" " + guard(func() string {
					r := ff.Reference(i)
					s := ""
					if r != nil && r.Source().IsValid() {
						s = r.Source().String() + "@"
					}
					return s + LLFromPoint(ff.PointAt(i)).String()
				}))
			}
			b.WriteString(" polyline=" + guard(func() string {
				pl := ff.Polyline()
				var ps []string
				for _, p := range *pl {
					ps = append(ps, LLFromPoint(p).String())
				}
				return strings.Join(ps, " ")
			}))
		default:
			fmt.Fprintf(&b, " geometry=%v", ff.GeometryType())
		}
	}
	return b.String()
}

func idSeq(fs b6.Features) string {
	var ids []string
	for fs.Next() {
		ids = append(ids, fs.FeatureID().String())
	}
	return strings.Join(ids, " ")
}

func idSet(ids []string) string {
	sort.Strings(ids)
	return strings.Join(ids, " ")
}

// DumpWorld evaluates every section. It never panics: a panicking query is
// recorded as the value "PANIC(...)".
func DumpWorld(w b6.World, o *DumpOptions) Dump {
	d := Dump{}
	put := func(section string, f func() string) {
		if o.skipped(section) {
			return
		}
		d[section] = guard(f)
	}
	for _, id := range o.IDs {
		id := id
		ids := id.String()
		put("has:"+ids, func() string { return fmt.Sprint(w.HasFeatureWithID(id)) })
		put("feat:"+ids, func() string { return FeatureString(w.FindFeatureByID(id), !o.NoGeometry, !o.NoFeatureRefs) })
		put("loc:"+ids, func() string {
			ll, err := w.FindLocationByID(id)
			if err != nil {
				return "err"
			}
			return LLFromLatLng(ll).String()
		})
		put("refs:"+ids, func() string {
			var out []string
			fs := w.FindReferences(id)
			for fs.Next() {
				out = append(out, fs.FeatureID().String())
			}
			return idSet(out)
		})
		for _, t := range []b6.FeatureType{b6.FeatureTypePath, b6.FeatureTypeArea, b6.FeatureTypeRelation, b6.FeatureTypeCollection} {
			t := t
			put(fmt.Sprintf("refs-%s:%s", t, ids), func() string {
				var out []string
				fs := w.FindReferences(id, t)
				for fs.Next() {
					out = append(out, fs.FeatureID().String())
				}
				return idSet(out)
			})
		}
		put("rels:"+ids, func() string {
			var out []string
			fs := w.FindRelationsByFeature(id)
			for fs.Next() {
				out = append(out, fs.FeatureID().String())
			}
			return idSet(out)
		})
		put("colls:"+ids, func() string {
			var out []string
			fs := w.FindCollectionsByFeature(id)
			for fs.Next() {
				out = append(out, fs.FeatureID().String())
			}
			return idSet(out)
		})
		if id.Type == b6.FeatureTypePoint {
			put("areas:"+ids, func() string {
				var out []string
				fs := w.FindAreasByPoint(id)
				for fs.Next() {
					out = append(out, fs.FeatureID().String())
				}
				return idSet(out)
			})
			put("trav:"+ids, func() string {
				var out []string
				ss := w.Traverse(id)
				for ss.Next() {
					s := ss.Segment()
					out = append(out, fmt.Sprintf("%s[%d-%d]", s.Feature.FeatureID(), s.First, s.Last))
				}
				return idSet(out)
			})
		}
	}
	for _, q := range o.Queries {
		q := q
		put("find:"+q.Name, func() string { return idSeq(w.FindFeatures(q.Query)) })
	}
	put("each", func() string {
		var out []string
		err := w.EachFeature(func(f b6.Feature, g int) error {
			out = append(out, f.FeatureID().String())
			return nil
		}, &b6.EachFeatureOptions{Goroutines: 1})
		if err != nil {
			return "err:" + err.Error()
		}
		return idSet(out)
	})
	return d
}

// Diff lists sections where a and b disagree (sections present in both, unless
// strict, in which case a missing section is a difference too).
func Diff(a, b Dump, strict bool) []string {
	var keys []string
	for k := range a {
		keys = append(keys, k)
	}
	if strict {
		for k := range b {
			if _, ok := a[k]; !ok {
				keys = append(keys, k)
			}
		}
	}
	sort.Strings(keys)
	var out []string
	for _, k := range keys {
		va, oka := a[k]
		vb, okb := b[k]
		if !strict && (!oka || !okb) {
			continue
		}
		if va != vb {
			out = append(out, fmt.Sprintf("%s:\n    A: %s\n    B: %s", k, va, vb))
		}
	}
	return out
}

// Section class = text before ':' (for violation classifiers).
func SectionClass(diffLine string) string {
	if i := strings.IndexByte(diffLine, ':'); i > 0 {
		return diffLine[:i]
	}
	return diffLine
}

func (d Dump) String() string {
	var keys []string
	for k := range d {
		keys = append(keys, k)
	}
	sort.Strings(keys)
	var b strings.Builder
	for _, k := range keys {
		fmt.Fprintf(&b, "%s => %s\n", k, d[k])
	}
	return b.String()
}

// Panics lists sections whose evaluation panicked.
func (d Dump) Panics() []string {
	var out []string
	for k, v := range d {
		if strings.Contains(v, "PANIC(") {
			out = append(out, k+" => "+v)
		}
	}
	sort.Strings(out)
	return out
}
