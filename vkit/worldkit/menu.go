package worldkit

import (
	"diagonal.works/b6"
)

// IDScheme maps menu slots to namespaces and 64-bit values.
type IDScheme struct {
	Name                       string
	PointNS, PathNS, AreaNS    string
	RelNS, CollNS              string
	Base                       uint64 // value of slot index 0
	Stride                     uint64
	// AltPointNS: namespace for the 4th point (a second namespace in one block set); "" = PointNS
	AltPointNS string
}

func (s IDScheme) val(i int) uint64 { return s.Base + uint64(i)*s.Stride }

func (s IDScheme) P(i int) b6.FeatureID {
	ns := s.PointNS
	if i == 3 && s.AltPointNS != "" {
		ns = s.AltPointNS
	}
	return PointID(ns, s.val(i))
}
func (s IDScheme) W(i int) b6.FeatureID { return PathID(s.PathNS, s.val(i)) }
func (s IDScheme) A(i int) b6.FeatureID { return AreaID(s.AreaNS, s.val(i)) }
func (s IDScheme) R(i int) b6.FeatureID { return RelationID(s.RelNS, s.val(i)) }
func (s IDScheme) C(i int) b6.FeatureID { return CollectionID(s.CollNS, s.val(i)) }

var osmScheme = IDScheme{Name: "osm", PointNS: string(b6.NamespaceOSMNode), PathNS: string(b6.NamespaceOSMWay), AreaNS: string(b6.NamespaceOSMWay), RelNS: string(b6.NamespaceOSMRelation), CollNS: "diagonal.works/ns/c", Base: 1, Stride: 1}

func custom(name, ns string, base, stride uint64) IDScheme {
	return IDScheme{Name: name, PointNS: ns, PathNS: ns, AreaNS: ns, RelNS: ns, CollNS: ns, Base: base, Stride: stride}
}

// Schemes: quick uses the first three.
var Schemes = []IDScheme{
	osmScheme,
	custom("custom-small", "diagonal.works/test", 1, 1),
	custom("custom-2^63", "x.y/z/w", 1<<63, 5),
	custom("custom-2^32", "diagonal.works/test", 1<<32+1, 1<<31),
	custom("custom-max", "diagonal.works/test", ^uint64(0)-40, 3),
	{Name: "osm-2^31", PointNS: string(b6.NamespaceOSMNode), PathNS: string(b6.NamespaceOSMWay), AreaNS: string(b6.NamespaceOSMWay), RelNS: string(b6.NamespaceOSMRelation), CollNS: "diagonal.works/ns/c", Base: 1 << 31, Stride: 1 << 30},
	{Name: "mixed-ns", PointNS: string(b6.NamespaceOSMNode), AltPointNS: "diagonal.works/test", PathNS: "diagonal.works/test", AreaNS: string(b6.NamespaceOSMWay), RelNS: "a.b/c", CollNS: "a.b/c", Base: 7, Stride: 1 << 40},
	custom("custom-2^63-exact", "diagonal.works/test", 1<<63 - 2, 1),
	custom("custom-zero", "diagonal.works/test", 0, 1),
}

// Variant builds a feature for a slot (nil = absent).
type Variant struct {
	Name string
	F    func(s IDScheme) *FSpec
}

type Slot struct {
	Name     string
	Variants []Variant
	Quick    int // number of leading variants used by quick tiers (0 = all)
}

func absent() Variant { return Variant{"absent", func(IDScheme) *FSpec { return nil }} }

var corner = []LL{G(0, 0), G(0, 2), G(2, 2), G(2, 0)} // counter-clockwise square

func pointSlot(i int, tagged []TagSpec) Slot {
	return Slot{Name: "point" + string(rune('1'+i)), Quick: 2, Variants: []Variant{
		{"plain", func(s IDScheme) *FSpec { return &FSpec{ID: s.P(i), Kind: KPoint, LL: corner[i]} }},
		{"tagged", func(s IDScheme) *FSpec { return &FSpec{ID: s.P(i), Kind: KPoint, LL: corner[i], Tags: tagged} }},
		absent(),
	}}
}

// FeatureMenu is the shared universe of slots (valid variants only are
// guaranteed by filtering with ValidSubset in the checks that need it).
func FeatureMenu() []Slot {
	slots := []Slot{
		pointSlot(0, []TagSpec{{"#amenity", "cafe"}}),
		pointSlot(1, []TagSpec{{"name", "two"}, {"@flag", "yes"}}),
		{Name: "points3+4", Variants: []Variant{
			{"both", nil}, // expanded by Expand
			absent(),
		}},
		{Name: "pathA", Variants: []Variant{
			{"closed-ccw-refs", func(s IDScheme) *FSpec {
				return &FSpec{ID: s.W(0), Kind: KPath, Path: Refs(s.P(0), s.P(1), s.P(2), s.P(3), s.P(0)), Tags: []TagSpec{{"#highway", "path"}}}
			}},
			{"open-refs", func(s IDScheme) *FSpec {
				return &FSpec{ID: s.W(0), Kind: KPath, Path: Refs(s.P(0), s.P(1), s.P(2)), Tags: []TagSpec{{"#highway", "path"}, {"name", ""}}}
			}},
			{"latlngs", func(s IDScheme) *FSpec {
				return &FSpec{ID: s.W(0), Kind: KPath, Path: LLs(G(5, 5), G(5, 6), G(6, 6))}
			}},
			{"mixed", func(s IDScheme) *FSpec {
				return &FSpec{ID: s.W(0), Kind: KPath, Path: []PathPt{{Ref: s.P(0)}, {LL: G(1, 1)}, {Ref: s.P(1)}}, Tags: []TagSpec{{"#highway", "footway"}}}
			}},
			{"closed-cw-refs", func(s IDScheme) *FSpec {
				return &FSpec{ID: s.W(0), Kind: KPath, Path: Refs(s.P(0), s.P(3), s.P(2), s.P(1), s.P(0))}
			}},
			absent(),
			{"mixed-refs-across-namespaces", func(s IDScheme) *FSpec {
				// under the mixed-ns scheme P(3) lives in another namespace than P(0), P(1):
				// the delta base of primary-namespace references must survive a foreign one
				return &FSpec{ID: s.W(0), Kind: KPath, Path: []PathPt{{Ref: s.P(1)}, {Ref: s.P(3)}, {LL: G(1, 1)}, {Ref: s.P(0)}, {Ref: s.P(2)}}, Tags: []TagSpec{{"#highway", "track"}}}
			}},
		}},
		{Name: "pathB", Variants: []Variant{
			absent(),
			{"open-shares-p2", func(s IDScheme) *FSpec {
				return &FSpec{ID: s.W(1), Kind: KPath, Path: Refs(s.P(1), s.P(3)), Tags: []TagSpec{{"#highway", "path"}}}
			}},
			{"latlngs-closed", func(s IDScheme) *FSpec {
				return &FSpec{ID: s.W(1), Kind: KPath, Path: LLs(G(10, 10), G(10, 12), G(12, 12), G(10, 10))}
			}},
		}},
		{Name: "area1", Variants: []Variant{
			absent(),
			{"by-pathA", func(s IDScheme) *FSpec {
				return &FSpec{ID: s.A(0), Kind: KArea, Polys: []PolySpec{{Paths: []b6.FeatureID{s.W(0)}}}, Tags: []TagSpec{{"#building", "yes"}}}
			}},
			{"polygon", func(s IDScheme) *FSpec {
				return &FSpec{ID: s.A(0), Kind: KArea, Polys: []PolySpec{{Loops: [][]LL{{G(20, 20), G(20, 24), G(24, 24), G(24, 20)}}}}, Tags: []TagSpec{{"#building", "yes"}, {"name", "hall"}}}
			}},
			{"polygon-with-hole", func(s IDScheme) *FSpec {
				return &FSpec{ID: s.A(0), Kind: KArea, Polys: []PolySpec{{Loops: [][]LL{{G(20, 20), G(20, 26), G(26, 26), G(26, 20)}, {G(22, 22), G(24, 22), G(24, 24), G(22, 24)}}}}}
			}},
			{"mixed-path+polygon", func(s IDScheme) *FSpec {
				return &FSpec{ID: s.A(0), Kind: KArea, Polys: []PolySpec{{Paths: []b6.FeatureID{s.W(0)}}, {Loops: [][]LL{{G(30, 30), G(30, 32), G(32, 32)}}}}, Tags: []TagSpec{{"#landuse", "park"}}}
			}},
			{"two-polygons", func(s IDScheme) *FSpec {
				return &FSpec{ID: s.A(0), Kind: KArea, Polys: []PolySpec{{Loops: [][]LL{{G(20, 20), G(20, 22), G(22, 22)}}}, {Loops: [][]LL{{G(30, 30), G(30, 32), G(32, 32)}}}}}
			}},
		}},
		{Name: "rel1", Variants: []Variant{
			absent(),
			{"point+path", func(s IDScheme) *FSpec {
				return &FSpec{ID: s.R(0), Kind: KRelation, Members: []MemberSpec{{s.P(0), "stop"}, {s.W(0), ""}}, Tags: []TagSpec{{"#route", "bus"}}}
			}},
			{"area+missing", func(s IDScheme) *FSpec {
				return &FSpec{ID: s.R(0), Kind: KRelation, Members: []MemberSpec{{s.A(0), "outer"}, {s.P(1), "x y"}, {PointID(s.PointNS, s.val(50)), "gone"}}}
			}},
			{"empty", func(s IDScheme) *FSpec {
				return &FSpec{ID: s.R(0), Kind: KRelation, Tags: []TagSpec{{"type", "site"}}}
			}},
		}},
		{Name: "rel2", Variants: []Variant{
			absent(),
			{"of-rel1", func(s IDScheme) *FSpec {
				return &FSpec{ID: s.R(1), Kind: KRelation, Members: []MemberSpec{{s.R(0), "sub"}, {s.P(0), ""}}, Tags: []TagSpec{{"#network", "x"}}}
			}},
		}},
	}
	return slots
}

// Expand builds the Spec for a choice of variant per slot.
func Expand(slots []Slot, choice []int, s IDScheme) Spec {
	var out Spec
	for i, sl := range slots {
		v := sl.Variants[choice[i]]
		if sl.Name == "points3+4" {
			if v.Name == "both" {
				out = append(out, FSpec{ID: s.P(2), Kind: KPoint, LL: corner[2], Tags: []TagSpec{{"#amenity", "bench"}, {"note", "a b"}}})
				out = append(out, FSpec{ID: s.P(3), Kind: KPoint, LL: corner[3]})
			}
			continue
		}
		if f := v.F(s); f != nil {
			out = append(out, *f)
		}
	}
	return out
}

func Radices(slots []Slot) []int {
	r := make([]int, len(slots))
	for i, s := range slots {
		r[i] = len(s.Variants)
	}
	return r
}

// TierRadices uses only the leading Quick variants of each slot for the quick tier.
func TierRadices(slots []Slot, tier string) []int {
	r := Radices(slots)
	if tier != "thorough" {
		for i, s := range slots {
			if s.Quick > 0 && s.Quick < r[i] {
				r[i] = s.Quick
			}
		}
	}
	return r
}

func ChoiceNames(slots []Slot, choice []int) []string {
	out := make([]string, len(slots))
	for i, s := range slots {
		out[i] = s.Name + ":" + s.Variants[choice[i]].Name
	}
	return out
}

// Universe: every ID the menu can produce under the scheme plus absent IDs.
func Universe(s IDScheme) []b6.FeatureID {
	ids := []b6.FeatureID{s.P(0), s.P(1), s.P(2), s.P(3), s.W(0), s.W(1), s.A(0), s.R(0), s.R(1),
		PointID(s.PointNS, s.val(50)), PathID(s.PathNS, s.val(51)), AreaID(s.AreaNS, s.val(52)), RelationID(s.RelNS, s.val(53)),
		PointID("absent.ns/x", 1)}
	return ids
}
