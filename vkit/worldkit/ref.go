package worldkit

import (
	"fmt"
	"math"
	"sort"
	"strings"

	"diagonal.works/b6"
	"github.com/golang/geo/s2"
)

// Ref is the reference world: plain maps over a Spec that contains exactly the
// features expected to be present.
type Ref struct {
	Spec Spec
	byID map[b6.FeatureID]*FSpec
}

func NewRef(s Spec) *Ref {
	r := &Ref{Spec: s, byID: map[b6.FeatureID]*FSpec{}}
	for i := range s {
		r.byID[s[i].ID] = &s[i]
	}
	return r
}

func (r *Ref) Has(id b6.FeatureID) bool { _, ok := r.byID[id]; return ok }
func (r *Ref) Get(id b6.FeatureID) *FSpec { return r.byID[id] }

func (r *Ref) Loc(id b6.FeatureID) (LL, bool) {
	if f, ok := r.byID[id]; ok && f.Kind == KPoint {
		return f.LL, true
	}
	return LL{}, false
}

// PathLLs resolves every point of a path; ok=false if a reference is missing.
func (r *Ref) PathLLs(f *FSpec) ([]LL, bool) {
	out := make([]LL, 0, len(f.Path))
	for _, p := range f.Path {
		if p.IsRef() {
			ll, ok := r.Loc(p.Ref)
			if !ok {
				return nil, false
			}
			out = append(out, ll)
		} else {
			out = append(out, p.LL)
		}
	}
	return out, true
}

// TagMap returns the non-geometry tags.
func (f *FSpec) TagMap() map[string]string {
	m := map[string]string{}
	for _, t := range f.Tags {
		m[t.Key] = t.Value
	}
	return m
}

// allTagStrings renders all tags (incl. geometry tags) like TagString.
func (r *Ref) allTagStrings(f *FSpec) []string {
	var parts []string
	for _, t := range f.Tags {
		parts = append(parts, t.Key+"=s:"+t.Value)
	}
	switch f.Kind {
	case KPoint:
		parts = append(parts, "point=pt:"+f.LL.String())
	case KPath:
		var es []string
		for _, p := range f.Path {
			if p.IsRef() {
				es = append(es, "id:"+p.Ref.String())
			} else {
				es = append(es, "pt:"+p.LL.String())
			}
		}
		parts = append(parts, "path=list["+strings.Join(es, " ")+"]")
	}
	sort.Strings(parts)
	return parts
}

func (r *Ref) polyLoops(p PolySpec) ([][]LL, bool) {
	if p.Paths == nil {
		return p.Loops, true
	}
	var loops [][]LL
	for _, id := range p.Paths {
		pf := r.byID[id]
		if pf == nil || pf.Kind != KPath {
			return nil, false
		}
		lls, ok := r.PathLLs(pf)
		if !ok || len(lls) < 2 {
			return nil, false
		}
		loops = append(loops, lls[:len(lls)-1])
	}
	return loops, true
}

// FeatureString mirrors worldkit.FeatureString for the reference.
func (r *Ref) FeatureString(id b6.FeatureID, geometry bool, withRefs bool) string {
	f := r.byID[id]
	if f == nil {
		return "nil"
	}
	var b strings.Builder
	fmt.Fprintf(&b, "id=%s tags=[%s]", f.ID, strings.Join(r.allTagStrings(f), "; "))
	if withRefs {
		var refs []string
		for _, x := range f.Refs() {
			refs = append(refs, x.String())
		}
		fmt.Fprintf(&b, " refs=%v", refs)
	}
	if !geometry {
		return b.String()
	}
	switch f.Kind {
	case KPoint:
		b.WriteString(" point=" + f.LL.String())
	case KPath:
		fmt.Fprintf(&b, " path[%d]", len(f.Path))
		var pl []string
		for _, p := range f.Path {
			if p.IsRef() {
				ll, _ := r.Loc(p.Ref)
				b.WriteString(" " + p.Ref.String() + "@" + ll.String())
				pl = append(pl, ll.String())
			} else {
				b.WriteString(" " + p.LL.String())
				pl = append(pl, p.LL.String())
			}
		}
		b.WriteString(" polyline=" + strings.Join(pl, " "))
	case KArea:
		fmt.Fprintf(&b, " area[%d]", len(f.Polys))
		for _, p := range f.Polys {
			loops, ok := r.polyLoops(p)
			if ok {
				b.WriteString(" poly=" + polygonString(PolygonFromLoops(loops)))
			} else {
				b.WriteString(" poly=?")
			}
			var ids []string
			for _, id := range p.Paths {
				ids = append(ids, id.String())
			}
			b.WriteString(" paths=" + fmt.Sprint(ids))
		}
	case KRelation:
		fmt.Fprintf(&b, " rel[%d]", len(f.Members))
		for _, m := range f.Members {
			fmt.Fprintf(&b, " (%s,%q)", m.ID, m.Role)
		}
	case KCollection:
		var items []string
		for _, kv := range f.Items {
			items = append(items, fmt.Sprintf("%v=>%v", kvAny(kv.K), kvAny(kv.V)))
		}
		fmt.Fprintf(&b, " coll%v count=%d,true", items, len(items))
	}
	return b.String()
}

// Indexed: the documented rule — every feature is indexed except a point
// whose only tag is its location.
func (r *Ref) Indexed(id b6.FeatureID) bool {
	f := r.byID[id]
	if f == nil {
		return false
	}
	return !(f.Kind == KPoint && len(f.Tags) == 0)
}

// ---- tag queries -----------------------------------------------------------

type RQ struct {
	Op   string // all | tagged | keyed | typed | and | or
	Key  string
	Val  string
	Type b6.FeatureType
	Sub  []RQ
}

func (q RQ) String() string {
	switch q.Op {
	case "all":
		return "all"
	case "tagged":
		return "tagged(" + q.Key + "=" + q.Val + ")"
	case "keyed":
		return "keyed(" + q.Key + ")"
	case "typed":
		return "typed(" + q.Type.String() + "," + q.Sub[0].String() + ")"
	}
	var parts []string
	for _, s := range q.Sub {
		parts = append(parts, s.String())
	}
	return q.Op + "(" + strings.Join(parts, ",") + ")"
}

func (q RQ) B6() b6.Query {
	switch q.Op {
	case "all":
		return b6.All{}
	case "tagged":
		return b6.Tagged{Key: q.Key, Value: b6.NewStringExpression(q.Val)}
	case "keyed":
		return b6.Keyed{Key: q.Key}
	case "typed":
		return b6.Typed{Type: q.Type, Query: q.Sub[0].B6()}
	case "and":
		var i b6.Intersection
		for _, s := range q.Sub {
			i = append(i, s.B6())
		}
		return i
	case "or":
		var u b6.Union
		for _, s := range q.Sub {
			u = append(u, s.B6())
		}
		return u
	}
	panic("bad op")
}

// Eval is the independent predicate over the reference tag map.
func (q RQ) Eval(id b6.FeatureID, tags map[string]string, indexed bool) bool {
	if !indexed {
		return false
	}
	switch q.Op {
	case "all":
		return true
	case "tagged":
		v, ok := tags[q.Key]
		return ok && v == q.Val
	case "keyed":
		_, ok := tags[q.Key]
		return ok
	case "typed":
		return id.Type == q.Type && q.Sub[0].Eval(id, tags, indexed)
	case "and":
		for _, s := range q.Sub {
			if !s.Eval(id, tags, indexed) {
				return false
			}
		}
		return true
	case "or":
		for _, s := range q.Sub {
			if s.Eval(id, tags, indexed) {
				return true
			}
		}
		return false
	}
	panic("bad op")
}

// Find returns the expected FindFeatures result: matching IDs in ID order.
func (r *Ref) Find(q RQ) []b6.FeatureID {
	var out []b6.FeatureID
	for _, id := range r.Spec.IDs() {
		f := r.byID[id]
		if q.Eval(id, f.TagMap(), r.Indexed(id)) {
			out = append(out, id)
		}
	}
	return out
}

func IDsString(ids []b6.FeatureID) string {
	parts := make([]string, len(ids))
	for i, id := range ids {
		parts[i] = id.String()
	}
	return strings.Join(parts, " ")
}

// QueryMenu returns every query tree up to the depth over the atoms.
func QueryMenu(atoms []RQ, depth int, types []b6.FeatureType) []RQ {
	level := append([]RQ{}, atoms...)
	all := append([]RQ{}, atoms...)
	for d := 1; d < depth; d++ {
		var next []RQ
		for _, t := range types {
			for _, q := range level {
				next = append(next, RQ{Op: "typed", Type: t, Sub: []RQ{q}})
			}
		}
		for _, op := range []string{"and", "or"} {
			for _, a := range level {
				next = append(next, RQ{Op: op, Sub: []RQ{a}})
				for _, b := range all {
					next = append(next, RQ{Op: op, Sub: []RQ{a, b}})
				}
			}
		}
		all = append(all, next...)
		level = next
	}
	return all
}

// ---- references ------------------------------------------------------------

// Referrers returns the reverse transitive closure: every feature that
// references id directly or through a chain of references. Terminates on cycles.
func (r *Ref) Referrers(id b6.FeatureID) []b6.FeatureID {
	seen := map[b6.FeatureID]bool{}
	var visit func(x b6.FeatureID)
	visit = func(x b6.FeatureID) {
		for _, f := range r.Spec {
			for _, ref := range f.Refs() {
				if ref == x && !seen[f.ID] {
					seen[f.ID] = true
					visit(f.ID)
				}
			}
		}
	}
	visit(id)
	var out []b6.FeatureID
	for x := range seen {
		out = append(out, x)
	}
	SortIDs(out)
	return out
}

func (r *Ref) DirectReferrers(id b6.FeatureID) []b6.FeatureID {
	var out []b6.FeatureID
	for _, f := range r.Spec {
		for _, ref := range f.Refs() {
			if ref == id {
				out = append(out, f.ID)
				break
			}
		}
	}
	SortIDs(out)
	return out
}

func filterType(ids []b6.FeatureID, t b6.FeatureType) []b6.FeatureID {
	var out []b6.FeatureID
	for _, id := range ids {
		if id.Type == t {
			out = append(out, id)
		}
	}
	return out
}

func sortedIDSet(ids []b6.FeatureID) string {
	s := make([]string, len(ids))
	for i, id := range ids {
		s[i] = id.String()
	}
	sort.Strings(s)
	return strings.Join(s, " ")
}

// ExpectedDump produces the reference value of the sections the reference
// models: has, feat, loc, refs*, rels, colls, areas, find:<tag queries>, each.
func (r *Ref) ExpectedDump(ids []b6.FeatureID, queries []RQ, geometry bool, withRefs bool) Dump {
	d := Dump{}
	for _, id := range ids {
		s := id.String()
		d["has:"+s] = fmt.Sprint(r.Has(id))
		d["feat:"+s] = r.FeatureString(id, geometry, withRefs)
		if ll, ok := r.Loc(id); ok {
			d["loc:"+s] = ll.String()
		} else {
			d["loc:"+s] = "err"
		}
		refs := r.Referrers(id)
		d["refs:"+s] = sortedIDSet(refs)
		for _, t := range []b6.FeatureType{b6.FeatureTypePath, b6.FeatureTypeArea, b6.FeatureTypeRelation, b6.FeatureTypeCollection} {
			d[fmt.Sprintf("refs-%s:%s", t, s)] = sortedIDSet(filterType(refs, t))
		}
		d["rels:"+s] = sortedIDSet(filterType(refs, b6.FeatureTypeRelation))
		d["colls:"+s] = sortedIDSet(filterType(refs, b6.FeatureTypeCollection))
		if id.Type == b6.FeatureTypePoint {
			d["areas:"+s] = sortedIDSet(filterType(refs, b6.FeatureTypeArea))
		}
	}
	for _, q := range queries {
		d["find:"+q.String()] = IDsString(r.Find(q))
	}
	d["each"] = sortedIDSet(r.Spec.IDs())
	return d
}

func NamedQueries(qs []RQ) []NamedQuery {
	out := make([]NamedQuery, len(qs))
	for i, q := range qs {
		out[i] = NamedQuery{Name: q.String(), Query: q.B6()}
	}
	return out
}

// ---- validity (independent coding of the documented rules) -----------------

// ValidSubset returns the features of s that a build which drops invalid
// features is expected to keep: paths need >= 2 points that all resolve;
// closed paths (first ref == last ref) must form a valid loop (clockwise
// loops are inverted, not dropped); areas by path need existing closed paths
// of >= 3 points.
func ValidSubset(s Spec) (Spec, map[b6.FeatureID]string) {
	all := NewRef(s)
	dropped := map[b6.FeatureID]string{}
	inverted := map[b6.FeatureID]bool{}
	okPath := map[b6.FeatureID]bool{}
	for i := range s {
		f := &s[i]
		if f.Kind != KPath {
			continue
		}
		lls, ok := all.PathLLs(f)
		switch {
		case len(f.Path) < 2:
			dropped[f.ID] = "fewer than 2 points"
		case !ok:
			dropped[f.ID] = "missing point"
		default:
			if f.Path[0].IsRef() && f.Path[0].Ref == f.Path[len(f.Path)-1].Ref {
				ps := make([]s2.Point, 0, len(lls)-1)
				for _, l := range lls[:len(lls)-1] {
					ps = append(ps, l.Point())
				}
				loop := s2.LoopFromPoints(ps)
				if err := loop.Validate(); err != nil {
					dropped[f.ID] = "invalid loop"
					continue
				}
				if loop.Area() > 2.0*math.Pi {
					inverted[f.ID] = true
				}
			}
			okPath[f.ID] = true
		}
	}
	for i := range s {
		f := &s[i]
		if f.Kind != KArea {
			continue
		}
		for _, p := range f.Polys {
			for _, id := range p.Paths {
				pf := all.Get(id)
				if pf == nil || !okPath[id] {
					dropped[f.ID] = "path missing or invalid"
				} else if lls, _ := all.PathLLs(pf); len(lls) < 3 || lls[0] != lls[len(lls)-1] {
					dropped[f.ID] = "path not closed or < 3 points"
				}
			}
		}
	}
	var out Spec
	for _, f := range s {
		if _, bad := dropped[f.ID]; !bad {
			if inverted[f.ID] {
				// builds invert clockwise closed paths rather than dropping them
				g := f
				g.Path = make([]PathPt, len(f.Path))
				for i, p := range f.Path {
					g.Path[len(f.Path)-1-i] = p
				}
				f = g
			}
			out = append(out, f)
		}
	}
	return out, dropped
}
