// Package worldkit holds what the world-level checks share: a declarative
// feature Spec (the reference world: plain values), builders for every world
// implementation, and a canonical Dump of everything a b6.World answers.
package worldkit

import (
	"fmt"
	"math"
	"sort"
	"strings"

	"diagonal.works/b6"
	"diagonal.works/b6/ingest"
	"github.com/golang/geo/s2"
)

// LL is a location in E7 units (integers, so equality is exact).
type LL struct{ Lat, Lng int64 }

func (l LL) LatLng() s2.LatLng {
	return s2.LatLngFromDegrees(float64(l.Lat)/1e7, float64(l.Lng)/1e7)
}
func (l LL) Point() s2.Point { return s2.PointFromLatLng(l.LatLng()) }
func (l LL) String() string  { return fmt.Sprintf("%d,%d", l.Lat, l.Lng) }

func LLFromLatLng(ll s2.LatLng) LL {
	return LL{int64(math.Round(ll.Lat.Degrees() * 1e7)), int64(math.Round(ll.Lng.Degrees() * 1e7))}
}
func LLFromPoint(p s2.Point) LL { return LLFromLatLng(s2.LatLngFromPoint(p)) }

// Grid point i,j on a 1e-4 degree grid near Granary Square.
func G(i, j int) LL { return LL{515350000 + int64(i)*1000, -1250000 + int64(j)*1000} }

type TagSpec struct{ Key, Value string }

type PathPt struct {
	Ref b6.FeatureID // valid => reference
	LL  LL           // otherwise a literal lat/lng
}

func (p PathPt) IsRef() bool { return p.Ref.IsValid() }

type PolySpec struct {
	Paths []b6.FeatureID // non-nil => polygon given by path IDs
	Loops [][]LL         // otherwise explicit loops (first = outer)
}

type MemberSpec struct {
	ID   b6.FeatureID
	Role string
}

type KV struct {
	K, V string // collection entries: "id:<feature id>" | "s:<string>" | "i:<int>"
}

type Kind int

const (
	KPoint Kind = iota
	KPath
	KArea
	KRelation
	KCollection
)

type FSpec struct {
	ID      b6.FeatureID
	Kind    Kind
	Tags    []TagSpec
	LL      LL
	Path    []PathPt
	Polys   []PolySpec
	Members []MemberSpec
	Items   []KV
}

type Spec []FSpec

func (s Spec) Find(id b6.FeatureID) *FSpec {
	for i := range s {
		if s[i].ID == id {
			return &s[i]
		}
	}
	return nil
}

func (s Spec) IDs() []b6.FeatureID {
	ids := make([]b6.FeatureID, 0, len(s))
	for _, f := range s {
		ids = append(ids, f.ID)
	}
	SortIDs(ids)
	return ids
}

func SortIDs(ids []b6.FeatureID) {
	sort.Slice(ids, func(i, j int) bool { return ids[i].Less(ids[j]) })
}

func (s Spec) String() string {
	var parts []string
	for _, f := range s {
		parts = append(parts, f.String())
	}
	return strings.Join(parts, " ; ")
}

func (f FSpec) String() string {
	var b strings.Builder
	b.WriteString(f.ID.String())
	if len(f.Tags) > 0 {
		b.WriteString(" {")
		for i, t := range f.Tags {
			if i > 0 {
				b.WriteString(",")
			}
			b.WriteString(t.Key + "=" + t.Value)
		}
		b.WriteString("}")
	}
	switch f.Kind {
	case KPoint:
		fmt.Fprintf(&b, " @%s", f.LL)
	case KPath:
		b.WriteString(" path[")
		for i, p := range f.Path {
			if i > 0 {
				b.WriteString(" ")
			}
			if p.IsRef() {
				b.WriteString(p.Ref.String())
			} else {
				b.WriteString(p.LL.String())
			}
		}
		b.WriteString("]")
	case KArea:
		b.WriteString(" area[")
		for i, p := range f.Polys {
			if i > 0 {
				b.WriteString(" | ")
			}
			if p.Paths != nil {
				fmt.Fprintf(&b, "paths%v", p.Paths)
			} else {
				fmt.Fprintf(&b, "loops%v", p.Loops)
			}
		}
		b.WriteString("]")
	case KRelation:
		fmt.Fprintf(&b, " rel%v", f.Members)
	case KCollection:
		fmt.Fprintf(&b, " coll%v", f.Items)
	}
	return b.String()
}

// ---- conversion to ingest features -------------------------------------

func tagsOf(ts []TagSpec) b6.Tags {
	var tags b6.Tags
	for _, t := range ts {
		tags = append(tags, b6.Tag{Key: t.Key, Value: b6.NewStringExpression(t.Value)})
	}
	return tags
}

func PolygonFromLoops(loops [][]LL) *s2.Polygon {
	ls := make([]*s2.Loop, 0, len(loops))
	for _, l := range loops {
		ps := make([]s2.Point, len(l))
		for i, p := range l {
			ps[i] = p.Point()
		}
		ls = append(ls, s2.LoopFromPoints(ps))
	}
	return s2.PolygonFromLoops(ls)
}

func kvAny(s string) interface{} {
	switch {
	case strings.HasPrefix(s, "id:"):
		return b6.FeatureIDFromString(s[3:])
	case strings.HasPrefix(s, "i:"):
		var n int
		fmt.Sscanf(s[2:], "%d", &n)
		return n
	default:
		return strings.TrimPrefix(s, "s:")
	}
}

// Feature builds a fresh ingest.Feature for the spec (a new value on every
// call, since worlds keep what they are given).
func (f FSpec) Feature() ingest.Feature {
	switch f.Kind {
	case KPoint:
		g := &ingest.GenericFeature{ID: f.ID, Tags: tagsOf(f.Tags)}
		g.AddTag(b6.Tag{Key: b6.PointTag, Value: b6.NewPointExpressionFromLatLng(f.LL.LatLng())})
		return g
	case KPath:
		g := &ingest.GenericFeature{ID: f.ID, Tags: tagsOf(f.Tags)}
		es := make([]b6.AnyExpression, 0, len(f.Path))
		for _, p := range f.Path {
			if p.IsRef() {
				es = append(es, b6.FeatureIDExpression(p.Ref))
			} else {
				es = append(es, b6.PointExpression(p.LL.LatLng()))
			}
		}
		g.AddTag(b6.Tag{Key: b6.PathTag, Value: b6.NewExpressions(es)})
		return g
	case KArea:
		a := ingest.NewAreaFeature(len(f.Polys))
		a.AreaID = f.ID.ToAreaID()
		a.Tags = tagsOf(f.Tags)
		for i, p := range f.Polys {
			if p.Paths != nil {
				a.SetPathIDs(i, append([]b6.FeatureID{}, p.Paths...))
			} else {
				a.SetPolygon(i, PolygonFromLoops(p.Loops))
			}
		}
		return a
	case KRelation:
		r := ingest.NewRelationFeature(len(f.Members))
		r.RelationID = f.ID.ToRelationID()
		r.Tags = tagsOf(f.Tags)
		for i, m := range f.Members {
			r.Members[i] = b6.RelationMember{ID: m.ID, Role: m.Role}
		}
		return r
	case KCollection:
		c := &ingest.CollectionFeature{CollectionID: f.ID.ToCollectionID(), Tags: tagsOf(f.Tags)}
		for _, kv := range f.Items {
			c.Keys = append(c.Keys, kvAny(kv.K))
			c.Values = append(c.Values, kvAny(kv.V))
		}
		return c
	}
	panic("bad kind")
}

func (s Spec) Features() []ingest.Feature {
	out := make([]ingest.Feature, 0, len(s))
	for _, f := range s {
		out = append(out, f.Feature())
	}
	return out
}

// References of a spec'd feature, in API order.
func (f FSpec) Refs() []b6.FeatureID {
	var out []b6.FeatureID
	switch f.Kind {
	case KPath:
		for _, p := range f.Path {
			if p.IsRef() {
				out = append(out, p.Ref)
			}
		}
	case KArea:
		for _, p := range f.Polys {
			out = append(out, p.Paths...)
		}
	case KRelation:
		for _, m := range f.Members {
			out = append(out, m.ID)
		}
	case KCollection:
		// only keys are references (ingest.CollectionFeature.References)
		for _, kv := range f.Items {
			if strings.HasPrefix(kv.K, "id:") {
				out = append(out, b6.FeatureIDFromString(kv.K[3:]))
			}
		}
	}
	return out
}

// ---- ID helpers ----------------------------------------------------------

func PointID(ns string, v uint64) b6.FeatureID {
	return b6.FeatureID{Type: b6.FeatureTypePoint, Namespace: b6.Namespace(ns), Value: v}
}
func PathID(ns string, v uint64) b6.FeatureID {
	return b6.FeatureID{Type: b6.FeatureTypePath, Namespace: b6.Namespace(ns), Value: v}
}
func AreaID(ns string, v uint64) b6.FeatureID {
	return b6.FeatureID{Type: b6.FeatureTypeArea, Namespace: b6.Namespace(ns), Value: v}
}
func RelationID(ns string, v uint64) b6.FeatureID {
	return b6.FeatureID{Type: b6.FeatureTypeRelation, Namespace: b6.Namespace(ns), Value: v}
}
func CollectionID(ns string, v uint64) b6.FeatureID {
	return b6.FeatureID{Type: b6.FeatureTypeCollection, Namespace: b6.Namespace(ns), Value: v}
}

func Refs(ids ...b6.FeatureID) []PathPt {
	out := make([]PathPt, len(ids))
	for i, id := range ids {
		out[i] = PathPt{Ref: id}
	}
	return out
}

func LLs(lls ...LL) []PathPt {
	out := make([]PathPt, len(lls))
	for i, l := range lls {
		out[i] = PathPt{LL: l}
	}
	return out
}
